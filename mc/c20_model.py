"""C20 - world and oracle for the app monitor.

The code under test is the real `treadmill.sproc.appmonitor`: `reevaluate`
AND the watch glue of `_run_sync` that builds the state it works on.  Every
world calls the real `_run_sync(api, alerts_dir, once=True)` against a tiny
in-memory ZooKeeper client whose `ChildrenWatch` decorator captures the real
nested callbacks (`_scheduled_watch`, `_appmonitors_watch`) and on which the
real `zkwatchers.ExistingDataWatch` registers the real `_monitor_data_watch`;
`reevaluate` is swapped for a capturing stub during that one call so that the
closure's `state` dict (and the `last_waited` read by the real
`masterapi.get_suspended_appmonitors`) end up in the harness, `time.sleep` is a
no-op.  Afterwards

* the scheduled view is refreshed by calling the real `_scheduled_watch` with
  the children of /scheduled in the order the event says (sorted, reversed,
  interleaved - ZooKeeper returns children in no particular order),
* a monitor is created / reconfigured / deleted by the USER's real entry
  points: `treadmill.api.app_monitor.API().create / update / delete` (through
  `__wrapped__`, the schema decorator cannot run here) and below them the real
  `scheduler.masterapi.update_appmonitor / get_appmonitor / delete_appmonitor`
  and `zkutils.put / get / ensure_deleted` on the tiny ZooKeeper, whose
  create / set / delete deliver the children / data watch events to the real
  callbacks.  Updates exist in the three payload shapes the REST schema allows
  (count only, policy only, both).  The harness never writes a monitor node,
* `reevaluate` (the real one) is called with the captured `state`.

Nothing of the glue is mirrored any more.  Fakes: `restclient.post` (records
the request, answers as the event says), `zkutils.update` (records and stores
what is written), `alert_f` (records), `utils.sys_exit` (raises instead of
killing the worker), the virtual clock.  The oracle is a continuous-time token
bucket per monitor (capacity 2*count, refill 2*count per hour, decremented by
successful creations only, reset when the monitor is (re)configured) plus the
clauses of the property statement; instance age is the harness's own creation
order, never the implementation's grouping; the policy is the one the user
configured last (a count-only update leaves it alone), never what is stored.
"""
import collections
import copy
import json
import logging
import math
import threading
import types

logging.disable(logging.CRITICAL)

from mc import vclock  # noqa: E402
from mc.vclock import CLOCK, BASE, TAU, logical  # noqa: E402

vclock.install()

import kazoo.exceptions  # noqa: E402

from treadmill.sproc import appmonitor as am  # noqa: E402
from treadmill.api import app_monitor as apimod  # noqa: E402
from treadmill.scheduler import masterapi  # noqa: E402
from treadmill import restclient  # noqa: E402
from treadmill import utils as tm_utils  # noqa: E402
from treadmill import zknamespace as z  # noqa: E402

_REAL_REEVALUATE = am.reevaluate
# the module-level name `time` inside appmonitor: virtual clock, no sleeping
am.time = types.SimpleNamespace(time=CLOCK.time, sleep=lambda _s: None)

SCHEDULED = z.path.scheduled()
APPMON = z.path.appmonitor()
ORDERS = ('sorted', 'reversed', 'interleaved')


class GlueCrashed(Exception):
    """utils.exit_on_unhandled would have killed the monitor process."""


def _no_exit(code=0):
    raise GlueCrashed('exit_on_unhandled -> sys_exit(%r)' % (code,))


tm_utils.sys_exit = _no_exit

Stat = collections.namedtuple('Stat', 'mzxid version')
Event = collections.namedtuple('Event', 'type path')


class _Handler:
    @staticmethod
    def lock_object():
        return threading.RLock()

    @staticmethod
    def sleep_func(_seconds):
        return None

    @staticmethod
    def spawn(func, *args, **kwargs):
        return func(*args, **kwargs)


class TinyZk:
    """Just enough of a kazoo client for _run_sync: data nodes with one-shot
    data watches, ChildrenWatch decorators that call back at registration
    (as kazoo does) and whenever the harness delivers a children event."""
    handler = _Handler

    def __init__(self, world):
        self.world = world
        self.nodes = {APPMON: (None, Stat(0, 0))}
        self.zxid = 0
        self.child_cb = {}
        self.data_w = {}

    def add_listener(self, _l):
        pass

    def remove_listener(self, _l):
        pass

    def children(self, path):
        if path == APPMON:
            pre = APPMON + '/'
            return sorted(p[len(pre):] for p in self.nodes if p.startswith(pre))
        if path == SCHEDULED:
            return self.world.children('sorted')
        raise kazoo.exceptions.NoNodeError(path)

    def ChildrenWatch(self, path):  # pylint: disable=invalid-name
        def _decorator(func):
            self.child_cb.setdefault(path, []).append(func)
            func(self.children(path))
            return func
        return _decorator

    def get(self, path, watch=None):
        if path not in self.nodes:
            raise kazoo.exceptions.NoNodeError(path)
        if watch is not None:
            self.data_w.setdefault(path, []).append(watch)
        return self.nodes[path]

    def write(self, path, data):
        self.zxid += 1
        old = self.nodes.get(path)
        self.nodes[path] = (data, Stat(self.zxid,
                                       old[1].version + 1 if old else 0))

    def fire_data(self, path, kind):
        watchers = self.data_w.pop(path, [])
        for w in watchers:
            w(Event(kind, path))

    def fire_children(self, path, children):
        for func in list(self.child_cb.get(path, [])):
            func(children)

    # -- the part of the kazoo API that zkutils.put / get / ensure_deleted
    #    (below masterapi.update_appmonitor / delete_appmonitor) use; watch
    #    events are delivered synchronously, data watch before children watch
    @staticmethod
    def make_default_acl(_acl):
        return None

    def set_acls(self, path, _acl):
        if path not in self.nodes:
            raise kazoo.exceptions.NoNodeError(path)

    def exists(self, path, watch=None):
        if watch is not None:
            raise NotImplementedError('exists watch')
        return self.nodes[path][1] if path in self.nodes else None

    def get_children(self, path, watch=None):
        if watch is not None:
            raise NotImplementedError('one-shot children watch')
        if path not in self.nodes and path != SCHEDULED:
            raise kazoo.exceptions.NoNodeError(path)
        if path in (APPMON, SCHEDULED):
            return self.children(path)
        return []

    def create(self, path, value=b'', acl=None, ephemeral=False,
               sequence=False, makepath=False):
        if ephemeral or sequence:
            raise NotImplementedError('ephemeral / sequence nodes')
        parent = path.rpartition('/')[0]
        if parent != APPMON:
            raise NotImplementedError('create outside %s' % APPMON)
        if path in self.nodes:
            raise kazoo.exceptions.NodeExistsError(path)
        self.write(path, value)
        self.fire_children(APPMON, self.children(APPMON))
        return path

    def set(self, path, value, version=-1):
        if path not in self.nodes:
            raise kazoo.exceptions.NoNodeError(path)
        if version not in (-1, self.nodes[path][1].version):
            raise kazoo.exceptions.BadVersionError(path)
        self.write(path, value)
        self.fire_data(path, 'CHANGED')
        return self.nodes[path][1]

    def delete(self, path, version=-1, recursive=False):
        if path not in self.nodes:
            raise kazoo.exceptions.NoNodeError(path)
        if path == APPMON or path.rpartition('/')[0] != APPMON:
            raise NotImplementedError('delete outside %s' % APPMON)
        del self.nodes[path]
        self.zxid += 1
        self.fire_data(path, 'DELETED')
        self.fire_children(APPMON, self.children(APPMON))

EPS = 1e-9
ANSWERS = ('ok', '404', '400', 'val', 'boom')
VALID_POLICIES = (None, 'fifo', 'lifo')


class _Resp:
    """What restclient.post returns (never inspected by the monitor)."""
    def json(self):
        return {}


_CUR = {'world': None}
_API = apimod.API()


def _unwrapped(func):
    """The schema decorator cannot run in this environment."""
    return getattr(func, '__wrapped__', func)


def _fake_post(api, url, payload=None, headers=None, **_kw):
    return _CUR['world'].on_post(url, payload)


def _fake_zk_update(zkclient, path, data, **_kw):
    w = _CUR['world']
    w.zk_written.append(copy.deepcopy(data))
    w.zk.write(path, json.dumps(data).encode())


am.restclient.post = _fake_post
am.zkutils.update = _fake_zk_update


def _raise(ans):
    if ans == 'ok':
        return _Resp()
    if ans == '404':
        raise restclient.NotFoundError('not found')
    if ans == '400':
        raise restclient.BadRequestError('bad request')
    if ans == 'val':
        raise restclient.ValidationError('invalid')
    raise Exception('connection refused')  # pylint: disable=broad-exception-raised


def units(x, count):
    """Tokens as whole seconds of refill (exact: all clock steps are whole
    seconds, one token is 1800/count s; the sub-second call-counter noise is
    far below 0.5 s)."""
    if not count:
        return round(x, 6)
    return int(round(x * 1800.0 / count))


class HarnessGlue(Exception):
    pass


class MonWorld:
    def __init__(self, cfg):
        self.cfg = cfg
        self.L = 0
        self.k = 0
        self.viol = []
        self.stats = collections.Counter()
        self.defs = {}          # monitor nodes in ZK: name -> (count, policy)
        self.policy = {}        # policy a name is (re)created with
        self.how = {}           # name -> the user's last configuration request
        self.inst = {n: [] for n in cfg['names']}   # creation (= age) order
        self.seq = 0
        self.zk_written = []
        self.alerts = 0
        self.ref = {}           # name -> {'B': tokens, 't': time, 'c': count}
        self.calls = []
        self.answers = ('ok',)
        self.zk = TinyZk(self)
        self._enter()
        self._boot()
        self._leave()

    # -- clock ------------------------------------------------------------
    def _enter(self):
        CLOCK.L, CLOCK.k = self.L, self.k
        _CUR['world'] = self

    def _leave(self):
        self.L, self.k = CLOCK.L, CLOCK.k

    # -- driving the real glue of _run_sync -----------------------------------
    def _boot(self):
        """Run the real _run_sync once: it registers its nested watch
        callbacks on the tiny ZooKeeper, reads last_waited through masterapi
        and calls reevaluate - which, for this one call, only hands the
        closure's state to the harness."""
        got = {}

        def _capture(api_url, alert_f, state, zkclient, last_waited):
            got['state'] = state
            got['last_waited'] = last_waited
            return last_waited

        self.zk.child_cb = {}
        self.zk.data_w = {}
        am.context = types.SimpleNamespace(GLOBAL=types.SimpleNamespace(
            zk=types.SimpleNamespace(conn=self.zk), cell='cell'))
        am.reevaluate = _capture
        try:
            am._run_sync('http://cellapi', '/nonexistent/alerts', True)
        finally:
            am.reevaluate = _REAL_REEVALUATE
        self.state = got['state']
        self.last_waited = got['last_waited']
        for name, (count, _policy) in self.defs.items():
            self._reset_ref(name, count)

    def _reset_ref(self, name, count):
        conf = self.state['monitors'].get(name)
        # a configured monitor that the real configuration path / watch glue
        # did not bring to the daemon is judged like any other (no-progress,
        # surplus-not-deleted): its budget is full as of now
        t = conf['last_update'] if conf is not None \
            else BASE + CLOCK.L + CLOCK.k * TAU
        self.ref[name] = {'B': 2.0 * count, 't': t, 'c': count}

    def children(self, order):
        """Children of /scheduled as ZooKeeper might return them."""
        out = sorted(i for lst in self.inst.values() for i in lst)
        if order == 'reversed':
            out.reverse()
        elif order == 'interleaved':
            out = out[:1] + out[1:][::-1]     # e.g. #1, #9, #3
        return out

    # -- events -------------------------------------------------------------
    def apply(self, ev):
        self._enter()
        try:
            getattr(self, '_ev_' + ev[0])(*ev[1:])
        finally:
            self._leave()

    # -- the user configures a monitor through the real API ---------------------
    def _node(self, name):
        """What is stored for the monitor in ZooKeeper (None: no node)."""
        got = self.zk.nodes.get(z.path.appmonitor(name))
        if got is None:
            return None
        try:
            return json.loads(got[0].decode())
        except Exception:  # pylint: disable=broad-except
            return {'unparsable': repr(got[0])}

    def _configure(self, name, route, rsrc):
        """One configuration request of the user.  `route` is create (POST
        /app-monitor/<name>), update (PUT) or raw (masterapi called directly,
        for a policy the REST schema would refuse); `rsrc` is the payload, in
        which an absent key means "leave it as it is"."""
        path = z.path.appmonitor(name)
        old = self.defs.get(name)
        if route == 'update' and old is None:
            raise HarnessGlue('update of a monitor that does not exist')
        count = rsrc.get('count', old[0] if old else None)
        policy = rsrc.get('policy', old[1] if old else None)
        if 'policy' in rsrc and rsrc['policy'] is None:
            raise HarnessGlue('a null policy in a payload is not in the menu '
                              '(the API cannot tell it from an absent one)')
        before = self.zk.nodes.get(path)
        apimod.context = types.SimpleNamespace(GLOBAL=types.SimpleNamespace(
            zk=types.SimpleNamespace(conn=self.zk), cell='cell'))
        try:
            if route == 'raw':
                masterapi.update_appmonitor(self.zk, name, rsrc.get('count'),
                                            rsrc.get('policy'))
            else:
                _unwrapped(getattr(_API, route))(name, dict(rsrc))
        except (HarnessGlue, GlueCrashed):
            raise
        except Exception as exc:  # pylint: disable=broad-except
            import traceback
            site = None
            for fr in traceback.extract_tb(exc.__traceback__):
                if '/treadmill/' in fr.filename:
                    site = '%s:%s' % (fr.filename.rsplit('/', 1)[1], fr.name)
            if site is None:
                raise
            # a legal configuration request fails in the service: the target
            # the user asked for never reaches the monitor
            self._v('configuration-request-raised', site,
                    request=[route, name, dict(rsrc)],
                    error='%s: %s' % (type(exc).__name__, str(exc)[:160]))
            return
        after = self.zk.nodes.get(path)
        self.defs[name] = (count, policy)
        self.policy[name] = policy
        self.how[name] = '%s(%s)' % (
            {'create': 'api.app_monitor.create',
             'update': 'api.app_monitor.update',
             'raw': 'masterapi.update_appmonitor'}[route],
            '+'.join(sorted(rsrc)))
        self.stats['config_' + self.how[name]] += 1
        if after is not before or old != self.defs[name]:
            # the monitor was (re)configured: the budget starts full
            self._reset_ref(name, count)

    def _ev_mon(self, name, count, policy):
        """Create the monitor, or update count and policy together."""
        rsrc = {'count': count}
        if policy is not None:
            rsrc['policy'] = policy
        if policy not in VALID_POLICIES:
            route = 'raw'
        elif name in self.defs:
            route = 'update'
        else:
            route = 'create'
        self._configure(name, route, rsrc)

    def _ev_cnt(self, name, count):
        """PUT {"count": n}: the usual scale request, the policy stays."""
        self._configure(name, 'update', {'count': count})

    def _ev_pol(self, name, policy):
        """PUT {"policy": p}: the target count stays."""
        self._configure(name, 'update', {'policy': policy})

    def _ev_del(self, name):
        apimod.context = types.SimpleNamespace(GLOBAL=types.SimpleNamespace(
            zk=types.SimpleNamespace(conn=self.zk), cell='cell'))
        _unwrapped(_API.delete)(name)
        del self.defs[name]
        self.how.pop(name, None)
        self.ref.pop(name, None)

    def _ev_tick(self, secs):
        CLOCK.advance(secs)

    def _ev_die(self, name, which):
        self.inst[name].pop(0 if which == 'old' else -1)

    def _ev_killall(self):
        for name in self.inst:
            del self.inst[name][:]

    def _ev_extra(self, name):
        self.seq += 1
        self.inst[name].append('%s#%010d' % (name, self.seq))

    def _ev_check_converged(self):
        check_converged(self)

    def _ev_restart(self):
        """The monitor process restarts: the real _run_sync start-up runs again
        on the same ZooKeeper content (fresh closure state, last_waited read
        back through masterapi from what was last written)."""
        self.ref = {}
        self._boot()

    def on_post(self, url, payload):
        idx = len(self.calls)
        ans = self.answers[min(idx, len(self.answers) - 1)]
        self.calls.append({'url': url, 'payload': copy.deepcopy(payload),
                           'answer': ans})
        return _raise(ans)

    def _alert(self, *_a, **_kw):
        self.alerts += 1

    def _ev_eval_r(self, *answers):
        self._ev_eval(*answers, order='reversed')

    def _ev_eval_x(self, *answers):
        self._ev_eval(*answers, order='interleaved')

    def _ev_eval(self, *answers, order='sorted'):
        # ZooKeeper delivers the children of /scheduled to the real watch
        self.zk.fire_children(SCHEDULED, self.children(order))
        self.calls = []
        self.answers = answers
        now = BASE + CLOCK.L + (CLOCK.k + 1) * TAU   # what reevaluate reads
        pre_susp = dict(self.state['suspended'])
        pre_inst = {n: list(v) for n, v in self.inst.items()}
        self.last_waited = _REAL_REEVALUATE(
            'http://cellapi', self._alert, self.state, self.zk,
            self.last_waited)
        self.stats['evals'] += 1
        self._judge(now, pre_susp, pre_inst)

    # -- oracle ---------------------------------------------------------------
    def _v(self, clause, site, **detail):
        self.viol.append({'clause': clause, 'site': site, 'detail': detail})

    def _mismatch(self, name):
        """None, or how the monitor node stored in ZooKeeper differs from what
        the user configured (then the configuration path lost it, not the
        evaluation): used to name the site only, never to judge."""
        if name not in self.defs:
            return None
        count, policy = self.defs[name]
        node = self._node(name)
        if not isinstance(node, dict) or 'count' not in node:
            return '%s/monitor-not-stored' % self.how.get(name)
        if node['count'] != count:
            return '%s/stored-count-differs' % self.how.get(name)
        if (node.get('policy') or 'fifo') != (policy or 'fifo'):
            return '%s/stored-policy-differs' % self.how.get(name)
        return None

    def _site(self, name, base):
        return self._mismatch(name) or base

    def _judge(self, now, pre_susp, pre_inst):
        creates = collections.defaultdict(list)   # app -> [(k, answer)]
        deletes = collections.defaultdict(list)   # app -> [(ids, answer)]
        for c in self.calls:
            url = c['url']
            if url == '/instance/_bulk/delete':
                ids = list(c['payload']['instances'])
                if not ids:
                    # an empty bulk delete removes nothing; a surplus left
                    # standing is reported as surplus-not-deleted below
                    self.stats['empty_delete_requests'] += 1
                    continue
                apps = {i.rpartition('#')[0] for i in ids}
                if len(apps) > 1:
                    self._v('delete-mixes-applications', 'reevaluate/scale-down',
                            request=c)
                for app in apps:
                    deletes[app].append(
                        ([i for i in ids if i.rpartition('#')[0] == app],
                         c['answer']))
            elif url.startswith('/instance/') and '?count=' in url:
                app, _, cnt = url[len('/instance/'):].partition('?count=')
                creates[app].append((int(cnt), c['answer']))
            else:
                self._v('unknown-request', 'reevaluate', request=c)
        if self.calls:
            self.stats['evals_with_request'] += 1

        for app in sorted(set(creates) | set(deletes) | set(self.defs)):
            cr = creates.get(app, [])
            de = deletes.get(app, [])
            k = sum(n for n, _a in cr)
            dl = [i for ids, _a in de for i in ids]
            cur = pre_inst.get(app, [])
            if app not in self.defs:
                self._v('action-for-deleted-monitor',
                        'api.app_monitor.delete/monitor-node-left'
                        if self._node(app) is not None and app in self.inst
                        else
                        'reevaluate/' + ('scale-up' if cr else 'scale-down'),
                        app=app, creates=cr, deletes=de)
                continue
            count, policy = self.defs[app]
            ref = self.ref[app]
            rate = 2.0 * count / 3600.0
            level = min(2.0 * count, ref['B'] + rate * (now - ref['t']))
            missing = count - len(cur)
            surplus = -missing
            suspended = pre_susp.get(app, 0) > now
            info = {'app': app, 'target': count, 'policy': policy,
                    'instances': len(cur), 'budget': round(level, 6),
                    'create_requests': cr, 'delete_requests': de,
                    'suspended': suspended}
            if cr and de:
                self._v('create-and-delete-same-app', 'reevaluate', **info)
            if suspended:
                self.stats['suspended_skips'] += 1
                if cr or de:
                    self._v('action-while-suspended',
                            'reevaluate/' + ('scale-up' if cr else 'scale-down'),
                            **info)
            if cr:
                self.stats['create_requests'] += 1
                if k > max(missing, 0):
                    self._v('create-exceeds-missing',
                            self._site(app, 'reevaluate/scale-up'), **info)
                if k > math.floor(level + EPS):
                    self._v('create-exceeds-budget',
                            self._site(app, 'reevaluate/scale-up'), **info)
                if any(n < 1 for n, _a in cr):
                    self._v('create-nonpositive-count', 'reevaluate/scale-up',
                            **info)
            elif not suspended and missing >= 1:
                if math.floor(level - EPS) >= 1:
                    self._v('no-progress',
                            self._site(app, 'reevaluate/scale-up'), **info)
                else:
                    self.stats['rate_limited'] += 1
            if de:
                self.stats['delete_requests'] += 1
                how = self.how.get(app, '')
                if how.endswith('update(count)') and policy is not None:
                    self.stats['deletes_after_count_only_update_%s'
                               % policy] += 1
                elif how.endswith('update(policy)'):
                    self.stats['deletes_after_policy_only_update_%s'
                               % policy] += 1
                if policy in VALID_POLICIES:
                    if surplus <= 0:
                        exp = []
                    elif policy == 'lifo':
                        exp = cur[len(cur) - surplus:]
                    else:
                        exp = cur[:surplus]
                    if sorted(dl) != sorted(exp):
                        # exactly as many as the surplus, all of them running
                        # instances of the application, but from the wrong end
                        by_number = surplus > 0 and \
                            len(set(dl)) == len(dl) == surplus and \
                            all(i in cur for i in dl)
                        self._v('delete-not-by-configured-policy' if by_number
                                else 'delete-not-exact-surplus',
                                self._site(app, 'reevaluate/scale-down'),
                                deleted=dl, expected=exp, have=cur,
                                stored=self._node(app),
                                configured_by=self.how.get(app), **info)
                else:
                    # the statement does not say what an unknown policy
                    # deletes; it still may not be more than the surplus
                    if len(set(dl)) != len(dl) or \
                            len(dl) > max(surplus, 0) or \
                            any(i not in cur for i in dl):
                        self._v('delete-not-exact-surplus',
                                self._site(app, 'reevaluate/scale-down'),
                                deleted=dl, have=cur, **info)
            elif not suspended and surplus >= 1 and policy in VALID_POLICIES:
                self._v('surplus-not-deleted',
                        self._site(app, 'reevaluate/scale-down'),
                        stored=self._node(app),
                        configured_by=self.how.get(app), **info)
            elif surplus >= 1 and policy not in VALID_POLICIES:
                self.stats['invalid_policy_skips'] += 1

            # effects of the answers + reference bucket
            made = 0
            for n, ans in cr:
                if ans == 'ok':
                    made += n
                    for _ in range(n):
                        self.seq += 1
                        self.inst[app].append('%s#%010d' % (app, self.seq))
                else:
                    self.stats['create_failed_' + ans] += 1
            if made:
                ref['B'] = level - made
                ref['t'] = now
                self.stats['instances_created'] += made
            for ids, ans in de:
                if ans == 'ok':
                    for i in ids:
                        if i in self.inst[app]:
                            self.inst[app].remove(i)
                            self.stats['instances_deleted'] += 1
                else:
                    self.stats['delete_failed'] += 1
            conf = self.state['monitors'].get(app)
            if conf is not None and conf['available'] < -EPS:
                self._v('budget-negative', 'reevaluate/refill',
                        available=conf['available'], **info)

    # -- search interface -------------------------------------------------------
    def enabled(self):
        cfg = self.cfg
        evs = [('eval',) + tuple(a) for a in cfg['answers']]
        if any(len(v) > 1 for v in self.inst.values()):
            # the order in which ZooKeeper lists /scheduled can only matter
            # when some application has two instances
            for kind, order in (('eval_r', 'reversed'), ('eval_x', 'interleaved')):
                if order in cfg.get('orders', ()):
                    evs += [(kind,) + tuple(a)
                            for a in cfg.get('order_answers', cfg['answers'])]
        evs += [('tick', s) for s in cfg['ticks']]
        for name in cfg['names']:
            n = len(self.inst[name])
            if n:
                evs.append(('die', name, 'old'))
            if n > 1:
                evs.append(('die', name, 'new'))
            if n < cfg['max_instances']:
                evs.append(('extra', name))
            if name not in self.defs:
                # POST: (re)created with the policy it was configured with last
                evs += [('mon', name, c, self.policy.get(name))
                        for c in cfg['counts']]
                continue
            cur_c, cur_p = self.defs[name]
            for c in cfg['counts']:
                if c == cur_c:
                    continue
                # PUT {"count": c}; and PUT with the policy repeated
                evs.append(('cnt', name, c))
                if cur_p is not None and cfg.get('full_updates'):
                    evs.append(('mon', name, c, cur_p))
            for p in cfg.get('policies', ()):
                if p != cur_p:
                    evs.append(('pol', name, p))        # PUT {"policy": p}
            if cfg.get('delete', True):
                evs.append(('del', name))
        if cfg.get('restart'):
            evs.append(('restart',))
        return evs

    def canon(self):
        out = []
        for name in self.cfg['names']:
            d = self.defs.get(name)
            conf = self.state['monitors'].get(name)
            if conf is None:
                c = None
            else:
                c = (conf['count'], conf['policy'],
                     units(conf['available'], conf['count']),
                     self.L - logical(conf['last_update']),
                     units(conf['rate'] * 3600.0, 1))
            s = self.state['suspended'].get(name)
            s = None if s is None else logical(s) - self.L
            r = self.ref.get(name)
            r = None if r is None else (units(r['B'], r['c']),
                                        self.L - logical(r['t']))
            out.append((name, d, self.policy.get(name), c, s, r,
                        len(self.inst[name]), name in (self.last_waited or ()),
                        self._mismatch(name)))
        extra_susp = sorted(set(self.state['suspended']) -
                            set(self.cfg['names']))
        # the order in which reevaluate visits the monitors (dict insertion
        # order) decides which request gets which answer of a mixed event
        order = tuple(self.state['monitors'])
        return (tuple(out), order, tuple(extra_susp),
                bool(self.zk_written) if self.cfg.get('restart') else None,
                tuple(sorted((self.zk_written[-1] or {}).keys()))
                if self.cfg.get('restart') and self.zk_written else None)


# ---------------------------------------------------------------------------
# probes run from every reached state
# ---------------------------------------------------------------------------

def drain_suffix(cfg):
    """Let every instance die and evaluate with a succeeding API, 2*max+2
    times: shows budget the monitor holds beyond what the statement allows,
    and budget it lost."""
    n = 2 * max(cfg['counts']) + 2
    return [('killall',), ('eval', 'ok')] * n


def converge_suffix(_cfg):
    """After an hour (full budget, every suspension over) three evaluations
    with a succeeding API, then instances == target is checked."""
    return [('tick', 3600), ('eval', 'ok'), ('eval', 'ok'), ('eval', 'ok'),
            ('check_converged',)]


def check_converged(world):
    now_susp = world.state['suspended']
    for name, (count, policy) in world.defs.items():
        n = len(world.inst[name])
        if name in now_susp:
            continue                # still suspended: no action demanded
        if n < count or (n > count and policy in VALID_POLICIES):
            world._v('no-convergence', 'reevaluate', app=name, target=count,
                     instances=n, policy=policy)
