"""In-memory ZooKeeper with the subset of kazoo's client API treadmill uses.

One `Tree` is shared by per-session `Client` objects.  Everything above the
client API (zkutils, ZkBackend, masterapi, presence service, trace cleanup) is
real treadmill code.  Semantics modelled (pinned by selftest/fakezk_test.py):
per-parent sequence counters, NoNode / NodeExists / NotEmpty / BadVersion /
NoChildrenForEphemerals, ephemeral owner, session expiry (ephemerals deleted,
watches fired, later calls raise SessionExpiredError), `set` keeps ctime and
bumps mtime/version, one-shot watches, DataWatch / ChildrenWatch recipes.
Not modelled: ACL enforcement, connection loss without expiry, quorum.

Hooks (all optional, set on the Tree):
  tree.hook(client, op, path)   called before every operation (scheduling
                                point for ilv, crash injection for crashx)
  tree.log                      every mutating call, with the previous owner
  tree.auto_deliver             True: watch callbacks run synchronously at the
                                end of the triggering call; False: they are
                                queued in tree.pending and delivered by the
                                harness (tree.deliver(i))
"""
import threading

import kazoo.client  # noqa: F401  (treadmill refers to kazoo.client.NoNodeError)
import kazoo.exceptions as kx
from kazoo.protocol.states import EventType, KeeperState, WatchedEvent, ZnodeStat


class Node:
    __slots__ = ('data', 'children', 'owner', 'seq', 'czxid', 'mzxid', 'pzxid',
                 'ctime', 'mtime', 'version', 'cversion')

    def __init__(self, data, owner, zxid, now):
        self.data = data
        self.children = {}          # name -> Node (insertion ordered)
        self.owner = owner          # ephemeral owner session id or 0
        self.seq = 0
        self.czxid = self.mzxid = self.pzxid = zxid
        self.ctime = self.mtime = now
        self.version = 0
        self.cversion = 0

    def clone(self):
        n = Node.__new__(Node)
        n.data = self.data
        n.owner = self.owner
        n.seq = self.seq
        n.czxid = self.czxid
        n.mzxid = self.mzxid
        n.pzxid = self.pzxid
        n.ctime = self.ctime
        n.mtime = self.mtime
        n.version = self.version
        n.cversion = self.cversion
        n.children = {k: c.clone() for k, c in self.children.items()}
        return n


def _split(path):
    assert path.startswith('/'), path
    if path == '/':
        return []
    return path.strip('/').split('/')


class Crash(BaseException):
    """Raised by a crash hook: the process dies here (no cleanup semantics)."""


class Tree:
    def __init__(self, clock_ms=None):
        self.root = Node(b'', 0, 0, 0)
        self.zxid = 0
        self.clock_ms = clock_ms or (lambda: 0)
        self.sessions = {}          # sid -> alive?
        self.next_sid = 100
        self.hook = None
        self.log = []
        self.write_count = 0
        self.auto_deliver = True
        self.pending = []           # [(callback, event)] undelivered watch events
        self.data_watches = {}      # path -> [(client, cb)]
        self.child_watches = {}     # path -> [(client, cb)]
        self.exist_watches = {}     # path -> [(client, cb)]

    # -- sessions ---------------------------------------------------------
    def client(self, sid=None):
        if sid is None:
            sid = self.next_sid
            self.next_sid += 1
        self.sessions[sid] = True
        return Client(self, sid)

    def expire(self, sid):
        """Session expiry: ephemerals vanish, watches fire."""
        self.sessions[sid] = False
        doomed = []

        def walk(prefix, node):
            for name, ch in list(node.children.items()):
                p = prefix.rstrip('/') + '/' + name
                walk(p, ch)
                if ch.owner == sid:
                    doomed.append(p)
        walk('/', self.root)
        for p in doomed:
            self._delete(p, by=None)
        for table in (self.data_watches, self.child_watches,
                      self.exist_watches):
            for path in list(table):
                table[path] = [(c, cb) for (c, cb) in table[path]
                               if c.sid != sid]
        self.pending = [(c, cb, ev) for (c, cb, ev) in self.pending
                        if c.sid != sid]
        self._flush()

    # -- snapshot ---------------------------------------------------------
    def clone(self):
        t = Tree(self.clock_ms)
        t.root = self.root.clone()
        t.zxid = self.zxid
        t.sessions = dict(self.sessions)
        t.next_sid = self.next_sid
        return t

    def dump(self, path='/', with_stat=False):
        """{path: data} (or (data, owner)) for the subtree."""
        out = {}

        def walk(prefix, node):
            for name, ch in node.children.items():
                p = prefix.rstrip('/') + '/' + name
                out[p] = (ch.data, ch.owner) if with_stat else ch.data
                walk(p, ch)
        start = self.find(path)
        if start is not None:
            walk(path, start)
        return out

    # -- internals --------------------------------------------------------
    def find(self, path):
        node = self.root
        for part in _split(path):
            node = node.children.get(part)
            if node is None:
                return None
        return node

    def stat(self, node):
        return ZnodeStat(node.czxid, node.mzxid, node.ctime, node.mtime,
                         node.version, node.cversion, 0, node.owner,
                         len(node.data or b''), len(node.children),
                         node.pzxid)

    def _fire(self, table, path, etype):
        watchers = table.pop(path, [])
        for client, cb in watchers:
            ev = WatchedEvent(etype, KeeperState.CONNECTED, path)
            self.pending.append((client, cb, ev))

    def _flush(self):
        if not self.auto_deliver:
            return
        guard = 0
        while self.pending:
            guard += 1
            assert guard < 10000, 'watch storm'
            client, cb, ev = self.pending.pop(0)
            if self.sessions.get(client.sid):
                cb(ev)

    def deliver(self, idx=0):
        client, cb, ev = self.pending.pop(idx)
        if self.sessions.get(client.sid):
            cb(ev)

    def _delete(self, path, by):
        parts = _split(path)
        parent = self.find('/' + '/'.join(parts[:-1]))
        node = parent.children.pop(parts[-1])
        self.zxid += 1
        parent.cversion += 1
        parent.pzxid = self.zxid
        self.log.append((by, 'delete', path, node.owner))
        self.write_count += 1
        ppath = '/' + '/'.join(parts[:-1])
        self._fire(self.data_watches, path, EventType.DELETED)
        self._fire(self.exist_watches, path, EventType.DELETED)
        self._fire(self.child_watches, path, EventType.DELETED)
        self._fire(self.child_watches, ppath, EventType.CHILD)


class _Handler:
    def event_object(self):
        return threading.Event()

    def lock_object(self):
        return threading.Lock()


class Client:
    """kazoo.client.KazooClient look-alike bound to one session."""

    def __init__(self, tree, sid):
        self.tree = tree
        self.sid = sid
        self.handler = _Handler()
        self.chroot = ''

    # identity / acl helpers used by treadmill's ZkClient subclass
    @property
    def client_id(self):
        return (self.sid, b'passwd')

    @property
    def connected(self):
        return bool(self.tree.sessions.get(self.sid))

    def _acl(self, *_a, **_kw):
        return ('acl',) + tuple(str(x) for x in _a)

    make_servers_acl = make_servers_del_acl = make_host_acl = _acl
    make_role_acl = make_user_acl = make_self_acl = make_anonymous_acl = _acl

    def make_default_acl(self, acls):
        return list(acls or [])

    def add_listener(self, _listener):
        pass

    def start(self, timeout=None):
        pass

    def stop(self):
        pass

    def close(self):
        pass

    # -- plumbing ---------------------------------------------------------
    def _enter(self, op, path):
        t = self.tree
        if t.hook is not None:
            t.hook(self, op, path)
        if not t.sessions.get(self.sid):
            raise kx.SessionExpiredError()

    # -- reads ------------------------------------------------------------
    def get(self, path, watch=None):
        self._enter('get', path)
        node = self.tree.find(path)
        if node is None:
            raise kx.NoNodeError(path)
        if watch is not None:
            self.tree.data_watches.setdefault(path, []).append((self, watch))
        return node.data, self.tree.stat(node)

    def exists(self, path, watch=None):
        self._enter('exists', path)
        node = self.tree.find(path)
        if watch is not None:
            table = (self.tree.data_watches if node is not None
                     else self.tree.exist_watches)
            table.setdefault(path, []).append((self, watch))
        return None if node is None else self.tree.stat(node)

    def get_children(self, path, watch=None, include_data=False):
        self._enter('get_children', path)
        node = self.tree.find(path)
        if node is None:
            raise kx.NoNodeError(path)
        if watch is not None:
            self.tree.child_watches.setdefault(path, []).append((self, watch))
        names = list(node.children)
        if include_data:
            return names, self.tree.stat(node)
        return names

    # -- writes -----------------------------------------------------------
    def create(self, path, value=b'', acl=None, ephemeral=False,
               sequence=False, makepath=False, include_data=False):
        self._enter('create', path)
        t = self.tree
        if value is None:
            value = b''
        if not isinstance(value, bytes):
            raise TypeError('value must be a byte string')
        parts = _split(path)
        if not parts:
            raise kx.NodeExistsError(path)
        ppath = '/' + '/'.join(parts[:-1])
        parent = t.find(ppath)
        if parent is None:
            if not makepath:
                raise kx.NoNodeError(ppath)
            self._ensure(ppath)
            parent = t.find(ppath)
        if parent.owner:
            raise kx.NoChildrenForEphemeralsError(ppath)
        name = parts[-1]
        if sequence:
            name = '%s%010d' % (name, parent.seq)
            parent.seq += 1
        if name in parent.children:
            raise kx.NodeExistsError(path)
        t.zxid += 1
        node = Node(value, self.sid if ephemeral else 0, t.zxid, t.clock_ms())
        parent.children[name] = node
        parent.cversion += 1
        parent.pzxid = t.zxid
        full = ppath.rstrip('/') + '/' + name
        t.log.append((self.sid, 'create', full, 0))
        t.write_count += 1
        t._fire(t.exist_watches, full, EventType.CREATED)
        t._fire(t.child_watches, ppath, EventType.CHILD)
        t._flush()
        return full

    def _ensure(self, path):
        t = self.tree
        cur = ''
        for part in _split(path):
            cur += '/' + part
            if t.find(cur) is None:
                self.create(cur, b'')

    def ensure_path(self, path, acl=None):
        self._enter('ensure_path', path)
        self._ensure(path)
        return True

    def set(self, path, value, version=-1):
        self._enter('set', path)
        t = self.tree
        if value is not None and not isinstance(value, bytes):
            raise TypeError('value must be a byte string')
        node = t.find(path)
        if node is None:
            raise kx.NoNodeError(path)
        if version != -1 and version != node.version:
            raise kx.BadVersionError(path)
        t.zxid += 1
        t.log.append((self.sid, 'set', path, node.owner))
        t.write_count += 1
        node.data = value if value is not None else b''
        node.mzxid = t.zxid
        node.mtime = t.clock_ms()
        node.version += 1
        t._fire(t.data_watches, path, EventType.CHANGED)
        t._flush()
        return t.stat(node)

    def set_acls(self, path, acls, version=-1):
        self._enter('set_acls', path)
        node = self.tree.find(path)
        if node is None:
            raise kx.NoNodeError(path)
        return self.tree.stat(node)

    def delete(self, path, version=-1, recursive=False):
        self._enter('delete', path)
        t = self.tree
        node = t.find(path)
        if node is None:
            raise kx.NoNodeError(path)
        if version != -1 and version != node.version:
            raise kx.BadVersionError(path)
        if node.children:
            if not recursive:
                raise kx.NotEmptyError(path)
            for name in list(node.children):
                self.delete(path.rstrip('/') + '/' + name, recursive=True)
        t._delete(path, by=self.sid)
        t._flush()
        return True

    # -- recipes ----------------------------------------------------------
    def DataWatch(self, path, func=None):  # pylint: disable=invalid-name
        """kazoo.recipe.watchers.DataWatch: func(data, stat[, event]) now and
        on every change until it returns False."""
        client = self

        def register(fn):
            import inspect
            try:
                nargs = len(inspect.signature(fn).parameters)
            except (TypeError, ValueError):
                nargs = 2
            state = {'stopped': False}

            def call(event):
                if state['stopped']:
                    return
                node = client.tree.find(path)
                table = (client.tree.data_watches if node is not None
                         else client.tree.exist_watches)
                table.setdefault(path, []).append((client, call))
                if node is None:
                    data, stat = None, None
                else:
                    data, stat = node.data, client.tree.stat(node)
                args = (data, stat, event) if nargs >= 3 else (data, stat)
                if fn(*args) is False:
                    state['stopped'] = True
            client._enter('DataWatch', path)
            call(None)
            return fn
        if func is not None:
            return register(func)
        return register

    def ChildrenWatch(self, path, func=None, send_event=False):  # noqa
        client = self

        def register(fn):
            state = {'stopped': False}

            def call(event):
                if state['stopped']:
                    return
                node = client.tree.find(path)
                if node is None:
                    state['stopped'] = True
                    return
                client.tree.child_watches.setdefault(path, []).append(
                    (client, call))
                children = list(node.children)
                rc = fn(children, event) if send_event else fn(children)
                if rc is False:
                    state['stopped'] = True
            client._enter('ChildrenWatch', path)
            if client.tree.find(path) is None:
                raise kx.NoNodeError(path)
            call(None)
            return fn
        if func is not None:
            return register(func)
        return register
