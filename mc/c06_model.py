"""C06 - world, reference model, case enumeration (bounded-exhaustive, boundx).

A *case* is a plain JSON-able dict

    {'parents': [-1, 0, ...],                  # allocation tree below the
                                               # partition's root allocation
     'nodes':   [[reserved, rank, adj, max_util], ...],
     'apps':    [[node, priority, demand, running], ...]}   # in arrival order

The real code is driven exactly the way Loader/Master drive it:

* the tree is built like `Loader.load_allocations` does (`get_sub_alloc` for
  every path component + `Allocation.update(reserved, rank, adj, max_util)`),
* instances are `scheduler.Application` objects created in arrival order under
  the virtual clock (distinct, increasing `global_order`), attached with
  `Cell.add_app`; a *running* instance has been put on the server
  (`Server.put`) before the cycle that is observed,
* observation 1: `Allocation.utilization_queue(free_capacity)` of the
  partition's root allocation (free capacity of an *empty* partition, all
  zeros),
* observation 2: one real `Cell.schedule()` on a one-server cell
  (capacity 20/20/20, enough for every population of the menus) with
  `Cell._find_placements` wrapped at class level: the order handed to
  placement, the `final_rank` of every instance at that moment, and where each
  instance is when the cycle ends.

The reference is written from the property statement (DESIGN 5/C06) with
integers only; it never looks at the code's utilisation numbers.
"""
from mc import modstate  # noqa: E402
import functools
import itertools
import logging
import sys

logging.disable(logging.CRITICAL)

import numpy as np  # noqa: E402

from mc import vclock  # noqa: E402
from mc.vclock import CLOCK, BASE  # noqa: E402

vclock.install()

from treadmill import scheduler as S  # noqa: E402

S.DIMENSION_COUNT = 3
UNPLACED = sys.maxsize
LABEL = '_default'
SERVER_CAP = [20, 20, 20]
SITE_QUEUE = 'Allocation.utilization_queue'
SITE_HANDED = 'Cell.schedule_alloc->_find_placements'
SITE_CYCLE = 'Cell.schedule (end of cycle)'

# --------------------------------------------------------------------------
# instrumentation from the harness side (class-level wrapper, no source hook)

_HANDED = []      # one entry per _find_placements call of the cycle in progress
_orig_find = S.Cell._find_placements


def _find_wrap(self, queue, servers):
    _HANDED.append([(a.name, a.final_rank) for a in queue])
    return _orig_find(self, queue, servers)


S.Cell._find_placements = _find_wrap

# --------------------------------------------------------------------------
# menus

RES = {'0': [0, 0, 0], '222': [2, 2, 2], '422': [4, 2, 2],
       '202': [2, 0, 2]}


def _node_menu(ranks, adjs, ress, mus):
    return [[list(RES[r]), rank, adj, mu]
            for r in ress for rank in ranks for adj in adjs for mu in mus]


def _inst_menu(prios, dems, runs=(0, 1)):
    return [(p, tuple(d), r) for p in prios for d in dems for r in runs]


NODE_MENUS = {
    # the full menu of DESIGN 5/C06: 3 x 2 x 2 x 3 = 36 node types
    'NF': _node_menu((50, 100), (0, 10), ('0', '222', '422'), (None, 1, 2)),
    # one allocation alone: its own rank cannot matter to the order, only the
    # adjustment does: 3 x 1 x 2 x 3 = 18
    'N1': _node_menu((100,), (0, 10), ('0', '222', '422'), (None, 1, 2)),
    # medium: no reservation / skewed reservation, no cap / cap at the
    # reservation: 2 x 2 x 2 x 2 = 16
    'NM': _node_menu((50, 100), (0, 10), ('0', '422'), (None, 1)),
    # small: four hand-picked node types - unreserved default-like tenant,
    # boosted reservation without cap, boosted reservation capped at 1x,
    # low-rank ("system") reservation capped at 2x
    'NS': [[[0, 0, 0], 100, 0, None],
           [[4, 2, 2], 100, 10, None],
           [[2, 2, 2], 100, 10, 1],
           [[2, 2, 2], 50, 0, 2]],
    # NS without the uncapped skewed reservation
    'N3': [[[0, 0, 0], 100, 0, None],
           [[2, 2, 2], 100, 10, 1],
           [[2, 2, 2], 50, 0, 2]],
    # N3 with the low-rank allocation uncapped and unreserved (a "system"
    # tenant of rank 0, the most important tier and the one value of rank
    # that is falsy in Python): its priority-0 instances keep rank 0 instead
    # of the unplaced rank and so sit in the middle of the merged queue
    'N3R': [[[0, 0, 0], 100, 0, None],
            [[2, 2, 2], 100, 10, 1],
            [[0, 0, 0], 0, 0, None]],
    # rank 0 ("system" tier) alone: every reservation x cap, no adjustment
    # (rank 0 with an adjustment, i.e. a negative boosted rank, is in NB1 / NB):
    # 3 x 3 = 9
    'NZ': _node_menu((0,), (0,), ('0', '222', '422'), (None, 1, 2)),
    # rank 0 next to ordinary tenants: default-like tenant, rank-0 reservation
    # capped at 2x, boosted uncapped reservation
    'N0': [[[0, 0, 0], 100, 0, None],
           [[2, 2, 2], 0, 0, 2],
           [[4, 2, 2], 100, 10, None]],
    # reservation in some but not all dimensions ([2,0,2]): every demand of
    # the menus has a component in the unreserved dimension, so by the
    # statement no instance is within the reservation (not in EVERY dimension)
    # and every instance is beyond a finite cap (cumulative > cap * 0 in SOME
    # dimension); with adjustment 10 so that a wrong boost shows: 2 x 3 = 6
    'NP': _node_menu((50, 100), (10,), ('202',), (None, 1, 2)),
    # partial reservations next to ordinary tenants
    'NQ': [[[0, 0, 0], 100, 0, None],
           [[2, 0, 2], 100, 10, 1],
           [[2, 0, 2], 50, 10, 2],
           [[2, 2, 2], 100, 10, 1]],
    # deep-tree slices (the re-scoring merge is applied once per level):
    # ranks {90, 100} x reservation {0, [2,2,2]}, no adjustment, no cap
    'ND': _node_menu((90, 100), (0,), ('0', '222'), (None,)),
    'ND2': _node_menu((90, 100), (0,), ('0',), (None,)),
    # the two capped reservations of NS (ranks 100-10 and 50)
    'N2': [[[2, 2, 2], 100, 10, 1],
           [[2, 2, 2], 50, 0, 2]],
    # rank adjustment LARGER than the rank (both are independently 0..100 in
    # etc/schema/common.json): the boosted rank "rank minus rank adjustment"
    # of the statement is negative (-10 / -5).  One allocation alone, every
    # reserved x cap: 2 x 1 x 2 x 3 = 12
    'NB1': _node_menu((0, 5), (10,), ('222', '422'), (None, 1, 2)),
    # ... next to competing allocations whose (boosted) rank lies between
    # that negative rank and 0: rank 5 - 10 = -5 uncapped; rank 0 - 10 = -10
    # capped at 1x; a plain rank-0 tenant with the larger reservation (it wins
    # every utilisation comparison once ranks tie); rank 3 - 5 = -2 capped at
    # 2x (strictly between -5 and 0)
    'NB': [[[2, 2, 2], 5, 10, None],
           [[2, 2, 2], 0, 10, 1],
           [[4, 2, 2], 0, 0, None],
           [[4, 2, 2], 3, 5, 2]],
}

D1, D2, D3 = (1, 1, 1), (2, 1, 1), (3, 3, 3)
INST_MENUS = {
    'IF': _inst_menu((0, 1, 50, 100), (D1, D2, D3)),        # 24, full
    'ID': _inst_menu((0, 1, 100), (D1, D2, D3)),            # 18
    'IE': _inst_menu((0, 1, 100), (D1, D2)),                # 12
    'IM': _inst_menu((0, 1, 100), (D1, D3)),                # 12
    'IS': _inst_menu((0, 1, 100), (D2,)),                   # 6
    'IT': _inst_menu((0, 50), (D2,)),                       # 4
    'I3': [(0, D2, 1), (50, D2, 0), (50, D2, 1)],
    'IZ': [(0, D2, 0), (50, D2, 0)],     # pending priority 0 / pending 50
    'I2': [(0, D2, 1), (50, D2, 0)],     # running priority 0 / pending 50
}


def _depth(par):
    best = 0
    for i in range(len(par)):
        d = 1
        while par[i] >= 0:
            i = par[i]
            d += 1
        best = max(best, d)
    return best


@functools.lru_cache(maxsize=None)
def _shapes(n, max_depth):
    """All forests of n nodes below the root, up to isomorphism, depth<=3.

    Returned as parent vectors (parents before children, -1 = partition root).
    """
    seen = {}

    def canon(par, i):
        return tuple(sorted(canon(par, c) for c in range(len(par))
                            if par[c] == i))

    def depth(par, i):
        d = 1
        while par[i] >= 0:
            i = par[i]
            d += 1
        return d

    for par in itertools.product(*[range(-1, i) for i in range(n)]):
        if any(depth(par, i) > max_depth for i in range(n)):
            continue
        key = canon(par, -1)
        if key not in seen:
            seen[key] = list(par)
    return tuple(tuple(seen[k])
                 for k in sorted(seen, key=lambda k: (repr(k))))


def shapes(n, max_depth=3):
    return [list(p) for p in _shapes(n, max_depth)]


# (nodes, max instances, node menu, instance menu, min instances)
# Every slice is a full product: all forest shapes of that many nodes x the
# node menu at every node x all populations of min..max instances, each
# instance drawn from (node x instance menu), in every arrival order.
SLICES = {
    'quick': [
        (1, 2, 'NF', 'IF', 1),
        (1, 3, 'N1', 'IE', 3),
        (1, 2, 'NZ', 'IF', 1),
        (1, 2, 'NP', 'IF', 1),
        (2, 2, 'N0', 'IS', 1),
        (2, 2, 'NQ', 'IS', 1),
        (2, 2, 'NM', 'IS', 1),
        (2, 2, 'NS', 'IF', 1),
        (2, 3, 'NS', 'IS', 3),
        (3, 2, 'NS', 'IS', 1),
        (3, 3, 'N3R', 'I3', 3),
        (4, 3, 'ND2', 'IZ', 1, ('upto', 4)),
        (5, 3, 'ND2', 'IZ', 3, ('chain',)),
        (1, 2, 'NB1', 'IF', 1),
        (2, 2, 'NB', 'IS', 1),
        (2, 3, 'NB', 'IT', 3),
    ],
    'thorough': [
        (1, 3, 'NF', 'IF', 1),
        (1, 4, 'N1', 'IE', 4),
        (1, 3, 'NZ', 'IF', 1),
        (1, 3, 'NP', 'IF', 1),
        (2, 2, 'N0', 'IF', 1),
        (2, 2, 'NQ', 'IF', 1),
        (2, 2, 'NM', 'IF', 1),
        (2, 2, 'NF', 'IS', 1),
        (2, 3, 'NS', 'IM', 3),
        (2, 3, 'NM', 'IS', 3),
        (2, 4, 'NS', 'IT', 4),
        (3, 2, 'NS', 'ID', 1),
        (3, 3, 'NS', 'IS', 3),
        (3, 3, 'N3R', 'I3', 3),
        (3, 4, 'N3', 'I2', 4),
        (4, 3, 'N3R', 'I2', 3),
        (4, 2, 'NS', 'IT', 1),
        (4, 3, 'N3', 'I2', 3),
        (4, 4, 'N2', 'I2', 4),
        (4, 3, 'ND', 'IZ', 1, ('upto', 4)),
        (5, 3, 'ND2', 'IZ', 1, ('upto', 5)),
        (5, 4, 'ND2', 'IZ', 4, ('list', [[-1, 0, 1, 1, -1],
                                         [-1, 0, 1, 2, 3]])),
        (1, 3, 'NB1', 'IF', 1),
        (2, 2, 'NB', 'IF', 1),
        (2, 3, 'NB', 'IS', 3),
        (3, 2, 'NB', 'IS', 1),
        (3, 3, 'NB', 'IT', 3),
    ],
}


def slice_shapes(sl):
    """Forest shapes of a slice: all shapes of depth <= 3 unless the slice
    carries a sixth element ('upto', d) = all shapes of depth <= d,
    ('chain',) = the single chain of n nodes, ('list', [...]) = as given."""
    n = sl[0]
    if len(sl) < 6:
        return shapes(n)
    spec = sl[5]
    if spec[0] == 'upto':
        return shapes(n, spec[1])
    if spec[0] == 'chain':
        return [list(range(-1, n - 1))]
    return [list(p) for p in spec[1]]


def slice_size(sl):
    n, kmax, nm, im, kmin = sl[:5]
    trees = len(slice_shapes(sl)) * len(NODE_MENUS[nm]) ** n
    pops = sum((n * len(INST_MENUS[im])) ** k for k in range(kmin, kmax + 1))
    return trees, pops


def describe_slices(tier):
    out = []
    for sl in SLICES[tier]:
        n, kmax, nm, im, kmin = sl[:5]
        trees, pops = slice_size(sl)
        out.append({
            'nodes': n, 'shapes': slice_shapes(sl),
            'max_depth': max(_depth(p) for p in slice_shapes(sl)),
            'instances': [kmin, kmax],
            'node_menu': nm, 'instance_menu': im,
            'trees': trees, 'populations_per_tree': pops,
            'cases': trees * pops})
    return out


def chunks(tier, target=None):
    """Chunk descriptors (tier, slice, shape, first tree, last tree, part,
    parts): the populations of a tree are split by the menu index of the
    first-arrived instance (index % parts == part)."""
    target = target or (4000 if tier == 'quick' else 8000)
    out = []
    for si, sl in enumerate(SLICES[tier]):
        n, kmax, nm, im, kmin = sl[:5]
        _trees, pops = slice_size(sl)
        combos = len(NODE_MENUS[nm]) ** n
        per = max(1, target // pops)
        parts = 1
        if pops > target:
            parts = min(n * len(INST_MENUS[im]), -(-pops // target))
        for shi in range(len(slice_shapes(sl))):
            lo = 0
            while lo < combos:
                hi = min(combos, lo + per)
                for part in range(parts):
                    out.append((tier, si, shi, lo, hi, part, parts))
                lo = hi
    return out


# --------------------------------------------------------------------------
# the real thing

class World:
    """One cell, one partition, one server, one allocation tree."""

    def __init__(self, parents, nodes):
        modstate.reset()    # module-level memos do not leak between cases
        CLOCK.reset()
        self.cell = cell = S.Cell('top')
        cell.partitions[LABEL] = S.Partition(label=LABEL)
        self.srv = srv = S.Server('srv', SERVER_CAP, up_since=BASE,
                                  label=LABEL)
        cell.add_node(srv)
        cell.partitions[LABEL].add(srv, None)
        self.root = root = cell.partitions[LABEL].allocation
        self.allocs = []
        paths = []
        for i, par in enumerate(parents):
            path = (paths[par] if par >= 0 else []) + ['n%d' % i]
            paths.append(path)
            # Loader.load_allocations
            alloc = root
            for part in path:
                alloc = alloc.get_sub_alloc(part)
            res, rank, adj, mu = nodes[i]
            alloc.update(list(res), rank, adj, mu)
            self.allocs.append(alloc)
        self.free0 = S.zero_capacity()

    def run(self, apps):
        """Load the population, observe, unload.  -> (queue, handed, placed)"""
        CLOCK.reset()
        cell, srv, allocs = self.cell, self.srv, self.allocs
        k = len(apps)
        objs = []
        for i, (node, prio, dem, running) in enumerate(apps):
            # name order is the reverse of arrival order, so that the name
            # (last component of the code's sort key) cannot stand in for it
            app = S.Application('p.a#%010d' % (k - i), prio, list(dem), 'p.a')
            cell.add_app(allocs[node], app)
            objs.append(app)
        for app, spec in zip(objs, apps):
            if spec[3]:
                if not srv.put(app):
                    raise RuntimeError('harness: cannot pre-place %r' % (spec,))
        queue = [(e[-1].name, e[0])
                 for e in self.root.utilization_queue(self.free0)]
        del _HANDED[:]
        cell.schedule()
        if len(_HANDED) != 1:
            raise RuntimeError('harness: %d placement passes' % len(_HANDED))
        handed = _HANDED[0]
        placed = [app.server for app in objs]
        for app in objs:
            cell.remove_app(app.name)
        return queue, handed, placed

    def pristine(self):
        return (not self.cell.apps and not self.srv.apps and
                not self.root.all_apps() and
                list(self.srv.free_capacity) == SERVER_CAP)


def app_names(k):
    return ['p.a#%010d' % (k - i) for i in range(k)]


def observe(case):
    """Run one case in a fresh world."""
    world = World(case['parents'], case['nodes'])
    apps = [(a[0], a[1], tuple(a[2]), a[3]) for a in case['apps']]
    queue, handed, placed = world.run(apps)
    return queue, handed, placed


# --------------------------------------------------------------------------
# the reference (from the statement; integers only)

def reference(nodes, apps, names):
    """Per node: reference order with (name, within, capped).

    order   := sort by (-priority, running first, arrival)
    within  := priority > 0 and cumulative demand (incl. this instance, in
               that order) <= reserved in every dimension
    capped  := the allocation has a utilisation cap and (priority == 0 or
               cumulative demand > cap * reserved in some dimension)
    """
    per = [[] for _ in nodes]
    for i, (node, prio, dem, running) in enumerate(apps):
        per[node].append((-prio, 0 if running else 1, i, dem))
    out = []
    for n, mine in enumerate(per):
        res, _rank, _adj, mu = nodes[n]
        mine.sort()
        c0 = c1 = c2 = 0
        ref = []
        for negp, _pend, i, dem in mine:
            c0 += dem[0]
            c1 += dem[1]
            c2 += dem[2]
            within = (negp < 0 and c0 <= res[0] and c1 <= res[1] and
                      c2 <= res[2])
            capped = mu is not None and (
                negp == 0 or c0 > mu * res[0] or c1 > mu * res[1] or
                c2 > mu * res[2])
            ref.append((names[i], within, capped))
        out.append(ref)
    return out


def judge(nodes, apps, names, ref, seq, site, placed=None):
    """Check one observed order [(name, rank)] against the statement.

    Returns [(clause, site, detail)].
    """
    bad = []
    got = [s[0] for s in seq]
    if sorted(got) != sorted(names):
        bad.append(('each-instance-exactly-once', site,
                    {'observed': got, 'expected_set': sorted(names)}))
        return bad
    rank_of = dict(seq)
    ranks = [s[1] for s in seq]
    for i in range(len(ranks) - 1):
        if ranks[i] > ranks[i + 1]:
            bad.append(('ranks-non-decreasing', site,
                        {'position': i, 'observed': seq}))
            break
    node_of = {names[i]: a[0] for i, a in enumerate(apps)}
    prio_of = {names[i]: a[1] for i, a in enumerate(apps)}
    for n, r in enumerate(ref):
        if not r:
            continue
        want = [x[0] for x in r]
        sub = [g for g in got if node_of[g] == n]
        if sub != want:
            bad.append(('allocation-priority-order', site,
                        {'node': n, 'observed': sub, 'expected': want}))
        _res, rank, adj, _mu = nodes[n]
        for name, within, capped in r:
            eff = rank_of[name]
            if within and eff != rank - adj:
                bad.append(('within-reservation-boosted-rank', site,
                            {'instance': name, 'node': n, 'observed': eff,
                             'expected': rank - adj}))
            if capped:
                if eff != UNPLACED:
                    bad.append(('beyond-cap-unplaced-rank', site,
                                {'instance': name, 'node': n,
                                 'observed': eff}))
            else:
                if prio_of[name] > 0 and eff == UNPLACED:
                    bad.append(('uncapped-given-unplaced-rank', site,
                                {'instance': name, 'node': n}))
                elif eff != rank and eff != rank - adj and not (
                        prio_of[name] == 0 and eff == UNPLACED):
                    bad.append(('rank-not-of-allocation', site,
                                {'instance': name, 'node': n, 'observed': eff,
                                 'allowed': [rank - adj, rank]}))
    seen_zero = {}
    for name, eff in seq:
        if prio_of[name] == 0:
            seen_zero[eff] = name
        elif eff in seen_zero:
            bad.append(('priority-zero-last-in-rank', site,
                        {'rank': eff, 'zero': seen_zero[eff],
                         'followed_by': name, 'observed': seq}))
            break
    if placed is not None:
        for n, r in enumerate(ref):
            for name, _within, capped in r:
                if capped and placed[name] is not None:
                    bad.append(('beyond-cap-not-scheduled', SITE_CYCLE,
                                {'instance': name, 'node': n,
                                 'ends_on': placed[name]}))
    return bad


def check(case, obs):
    """Judge both observations of a case -> [(clause, site, detail)]."""
    nodes = case['nodes']
    apps = [(a[0], a[1], tuple(a[2]), a[3]) for a in case['apps']]
    names = app_names(len(apps))
    ref = reference(nodes, apps, names)
    queue, handed, placed = obs
    bad = judge(nodes, apps, names, ref, queue, SITE_QUEUE)
    bad += judge(nodes, apps, names, ref, handed, SITE_HANDED,
                 dict(zip(names, placed)))
    return bad, ref


def make_case(parents, nodes, apps):
    return {'parents': list(parents),
            'nodes': [[list(n[0]), n[1], n[2], n[3]] for n in nodes],
            'apps': [[a[0], a[1], list(a[2]), a[3]] for a in apps]}


def confirmed(case, obs):
    """Re-run twice in fresh worlds; identical observations or harness bug."""
    o1 = observe(case)
    o2 = observe(case)
    if not (_same(o1, obs) and _same(o2, obs)):
        raise RuntimeError('C06 harness: non-deterministic observation for %r:'
                           ' %r / %r / %r' % (case, obs, o1, o2))


def _same(a, b):
    return (list(map(tuple, a[0])) == list(map(tuple, b[0])) and
            list(map(tuple, a[1])) == list(map(tuple, b[1])) and
            list(a[2]) == list(b[2]))


LEAK_EVERY = 257


def worker(chunk):
    """Sweep every case of one chunk."""
    tier, si, shi, lo, hi, part, parts = chunk
    n, kmax, nm, im, kmin = SLICES[tier][si][:5]
    parents = slice_shapes(SLICES[tier][si])[shi]
    nmenu = NODE_MENUS[nm]
    imenu = INST_MENUS[im]
    inst = [(node, p, d, r) for node in range(n) for (p, d, r) in imenu]
    cases = nontrivial = evals = entries = 0
    cnt = dict.fromkeys((
        'some_within_reservation', 'some_beyond_cap',
        'running_instance_beyond_cap', 'priority0_shares_rank',
        'two_or_more_ranks', 'allocation_with_2plus_instances',
        'pending_arrived_before_running_same_priority',
        'crossing_instance_boosted_by_code', 'allocations_interleaved',
        'within_reservation_negative_boosted_rank',
        'negative_boosted_rank_competes_up_to_rank_0'), 0)
    viol = {}
    samples = []
    combos = itertools.islice(itertools.product(nmenu, repeat=n), lo, hi)
    for nodes in combos:
        world = World(parents, nodes)
        for k in range(kmin, kmax + 1):
            names = app_names(k)
            for apps in _populations(inst, k, part, parts):
                cases += 1
                obs = world.run(apps)
                queue, handed, placed = obs
                ref = reference(nodes, apps, names)
                bad = judge(nodes, apps, names, ref, queue, SITE_QUEUE)
                bad += judge(nodes, apps, names, ref, handed, SITE_HANDED,
                             dict(zip(names, placed)))
                evals += 2
                entries += len(queue) + len(handed)
                if k >= 2:
                    nontrivial += 1
                # ---- non-vacuity bookkeeping (reference + observation)
                _count(cnt, nodes, apps, names, ref, queue)
                if bad:
                    case = make_case(parents, nodes, apps)
                    for clause, site, detail in bad:
                        key = (clause, site)
                        if key in viol:
                            viol[key]['count'] += 1
                            continue
                        confirmed(case, obs)
                        detail = dict(detail)
                        detail['case'] = case
                        detail['queue'] = queue
                        detail['handed_to_placement'] = handed
                        detail['placed_after_cycle'] = placed
                        viol[key] = {
                            'clause': clause, 'site': site, 'detail': detail,
                            'count': 1,
                            'replay': {'kind': 'tree', 'case': case}}
                elif cases % LEAK_EVERY == 0:
                    # the world object is reused for all populations of one
                    # tree: systematically compare with a fresh world
                    case = make_case(parents, nodes, apps)
                    confirmed(case, obs)
                    cnt['fresh_world_cross_checks'] = cnt.get(
                        'fresh_world_cross_checks', 0) + 1
                if len(samples) < 2 and cases % 1009 == 17:
                    samples.append({
                        'case': make_case(parents, nodes, apps),
                        'utilization_queue': queue,
                        'handed_to_placement': handed,
                        'placed_after_cycle': placed})
        if not world.pristine():
            raise RuntimeError('C06 harness: world not pristine after tree %r'
                               % (nodes,))
    cnt['queue_entries'] = entries
    cnt['judgements'] = evals
    return {'cases': cases, 'nontrivial': nontrivial, 'states': cases,
            'violations': list(viol.values()), 'samples': samples,
            'counters': cnt}


def _populations(inst, k, part, parts):
    if parts == 1:
        return itertools.product(inst, repeat=k)
    return itertools.product(inst[part::parts], *([inst] * (k - 1)))


def _count(cnt, nodes, apps, names, ref, queue):
    rank_of = dict(queue)
    any_within = any_capped = False
    for n, r in enumerate(ref):
        if len(r) >= 2:
            cnt['allocation_with_2plus_instances'] += 1
            break
    for n, r in enumerate(ref):
        _res, rank, adj, _mu = nodes[n]
        for name, within, capped in r:
            if within:
                any_within = True
            elif adj and not capped and rank_of.get(name) == rank - adj:
                cnt['crossing_instance_boosted_by_code'] += 1
            if capped:
                any_capped = True
    if any_within:
        cnt['some_within_reservation'] += 1
        # rank adjustment > rank: the boosted rank is negative; does another
        # allocation hold an instance whose rank (by the reference: boosted if
        # within, else plain or boosted) lies in [that negative rank, 0]?
        neg = competes = False
        for n, r in enumerate(ref):
            lo = nodes[n][1] - nodes[n][2]
            if lo >= 0 or not any(w for _nm, w, _c in r):
                continue
            neg = True
            for m, other in enumerate(ref):
                if m == n:
                    continue
                rank, adj = nodes[m][1], nodes[m][2]
                for _nm, within, capped in other:
                    if capped:
                        continue
                    cands = (rank - adj,) if within else (rank, rank - adj)
                    if any(lo <= c <= 0 for c in cands):
                        competes = True
        if neg:
            cnt['within_reservation_negative_boosted_rank'] += 1
        if competes:
            cnt['negative_boosted_rank_competes_up_to_rank_0'] += 1
    if any_capped:
        cnt['some_beyond_cap'] += 1
        idx = {nm: i for i, nm in enumerate(names)}
        if any(capped and apps[idx[name]][3]
               for r in ref for name, _w, capped in r):
            cnt['running_instance_beyond_cap'] += 1
    if len(queue) >= 2:
        ranks = set(e[1] for e in queue)
        if len(ranks) >= 2:
            cnt['two_or_more_ranks'] += 1
        prio_of = {names[i]: a[1] for i, a in enumerate(apps)}
        zero = set(e[1] for e in queue if prio_of.get(e[0]) == 0)
        pos = set(e[1] for e in queue if prio_of.get(e[0], 0) > 0)
        if zero & pos:
            cnt['priority0_shares_rank'] += 1
        for i, a in enumerate(apps):
            for j in range(i + 1, len(apps)):
                b = apps[j]
                if (a[0] == b[0] and a[1] == b[1] and not a[3] and b[3]):
                    cnt['pending_arrived_before_running_same_priority'] += 1
                    break
            else:
                continue
            break
        if len(queue) >= 3:
            node_of = {names[i]: a[0] for i, a in enumerate(apps)}
            seq = [node_of.get(e[0]) for e in queue]
            comp = [x for i, x in enumerate(seq) if i == 0 or seq[i - 1] != x]
            if len(comp) != len(set(comp)):
                cnt['allocations_interleaved'] += 1
