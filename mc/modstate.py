"""modstate - owning process-wide state of the code under test.

A worker process executes thousands of independent cases (histories,
inputs, schedules) against one import of treadmill.  Anything the code keeps
at module level - a memo dictionary, a "last seen" scalar, an lru_cache -
survives from one case into the next: the verdict of a case then depends on
which cases the worker happened to run before (not reproducible, and a
replay in a fresh process disagrees).  The unchanged tree keeps no such state
on the paths the checks drive, but a changed tree may (caches are the classic
review-proof regression), so the harness owns it: `reset()` puts every
module-level container and scalar of the `treadmill` package back to what it
was when the first case of this process started, and clears every
functools cache reachable from a module or a class of the package.

What a case itself does with such state is NOT hidden: within one case the
memo lives as in a real process, which is exactly where a stale memo bites.
Callables, modules, classes and arbitrary objects bound at module level are
never touched (that is where the harness installs its fakes).
"""
import collections
import copy
import dis
import sys
import types

_PREFIX = 'treadmill'
_CONTAINERS = (dict, list, set, collections.deque)
_SCALARS = (type(None), bool, int, float, str, bytes, tuple, frozenset)

_SEEN = set()           # module names already recorded
_TRACKED = []           # [(module, name, obj, pristine copy | None)]
_CACHES = []            # callables with cache_clear
STATS = collections.Counter()


def _stored_globals(mod):
    """Names some function of the module re-binds (`global x; x = ...`)."""
    names = set()
    seen = set()

    def walk(code):
        if id(code) in seen:
            return
        seen.add(id(code))
        for ins in dis.get_instructions(code):
            if ins.opname in ('STORE_GLOBAL', 'DELETE_GLOBAL'):
                names.add(ins.argval)
        for const in code.co_consts:
            if isinstance(const, types.CodeType):
                walk(const)

    for val in list(vars(mod).values()):
        if getattr(val, '__module__', None) != mod.__name__:
            continue
        if isinstance(val, types.FunctionType):
            walk(val.__code__)
        elif isinstance(val, type):
            for cval in vars(val).values():
                fn = getattr(cval, '__func__', cval)
                fn = getattr(fn, '__wrapped__', fn)
                if isinstance(fn, types.FunctionType):
                    walk(fn.__code__)
    return names


def _record_module(mod):
    rebound = _stored_globals(mod)
    for name, val in list(vars(mod).items()):
        if name.startswith('__'):
            continue
        if isinstance(val, _SCALARS) and name not in rebound:
            continue        # nothing in the module can re-bind it
        if isinstance(val, _CONTAINERS):
            try:
                _TRACKED.append((mod, name, val, copy.deepcopy(val)))
            except Exception:  # pylint: disable=broad-except
                pass
        elif isinstance(val, _SCALARS):
            _TRACKED.append((mod, name, val, None))
        elif isinstance(val, type) and \
                getattr(val, '__module__', None) == mod.__name__:
            for cname, cval in list(vars(val).items()):
                if hasattr(cval, 'cache_clear'):
                    _CACHES.append(cval)
                elif isinstance(cval, _CONTAINERS) and \
                        not cname.startswith('__'):
                    try:
                        _TRACKED.append((val, cname, cval,
                                         copy.deepcopy(cval)))
                    except Exception:  # pylint: disable=broad-except
                        pass
        elif hasattr(val, 'cache_clear') and callable(val):
            _CACHES.append(val)


def _scan():
    for name, mod in list(sys.modules.items()):
        if name in _SEEN or mod is None or \
                not isinstance(mod, types.ModuleType):
            continue
        if name == _PREFIX or name.startswith(_PREFIX + '.'):
            _SEEN.add(name)
            _record_module(mod)


def reset():
    """Put the package's module-level state back to its state at the first
    call (modules imported later: at the first call after their import)."""
    if len(sys.modules) != STATS['modules_seen']:
        _scan()
        STATS['modules_seen'] = len(sys.modules)
    for owner, name, obj, pristine in _TRACKED:
        cur = getattr(owner, name, obj)
        if pristine is None:
            if cur is not obj and cur != obj:
                setattr(owner, name, obj)
                STATS['scalars_rebound'] += 1
            continue
        if cur is not obj:
            # rebound to another object: bind the original one again
            try:
                setattr(owner, name, obj)
            except (AttributeError, TypeError):
                pass
            STATS['containers_rebound'] += 1
        if obj != pristine:
            fresh = copy.deepcopy(pristine)
            if isinstance(obj, dict):
                obj.clear()
                obj.update(fresh)
            elif isinstance(obj, set):
                obj.clear()
                obj.update(fresh)
            elif isinstance(obj, list):
                obj[:] = fresh
            else:
                obj.clear()
                obj.extend(fresh)
            STATS['containers_restored'] += 1
    for fn in _CACHES:
        try:
            fn.cache_clear()
        except Exception:  # pylint: disable=broad-except
            pass


def dirty():
    """True if the package holds module-level state that differs from the
    pristine one (a state that replay from scratch rebuilds, but that a
    snapshot of objects and files does not carry)."""
    for owner, name, obj, pristine in _TRACKED:
        cur = getattr(owner, name, obj)
        if pristine is None:
            if cur is not obj and cur != obj:
                return True
        elif cur is not obj or obj != pristine:
            return True
    for fn in _CACHES:
        try:
            if fn.cache_info().currsize:
                return True
        except Exception:  # pylint: disable=broad-except
            pass
    return False


def digest():
    """Hashable summary of the module-level state that differs from the
    pristine one, for canonical state keys: () on a tree that keeps none.
    Contents of functools caches cannot be read; (misses, currsize) stands in
    for them (over-fine rather than over-coarse is the safe side)."""
    out = []
    for owner, name, obj, pristine in _TRACKED:
        cur = getattr(owner, name, obj)
        if pristine is None:
            if cur is not obj and cur != obj:
                out.append((getattr(owner, '__name__', '?'), name, repr(cur)))
        elif cur is not obj or obj != pristine:
            try:
                body = repr(sorted(cur.items(), key=repr)) \
                    if isinstance(cur, dict) else repr(
                        sorted(cur, key=repr) if isinstance(cur, set)
                        else list(cur))
            except Exception:  # pylint: disable=broad-except
                body = repr(cur)
            out.append((getattr(owner, '__name__', '?'), name, body))
    for fn in _CACHES:
        try:
            info = fn.cache_info()
            if info.currsize or info.misses:
                out.append((getattr(fn, '__module__', '?'),
                            getattr(fn, '__qualname__', '?'),
                            info.misses, info.currsize))
        except Exception:  # pylint: disable=broad-except
            pass
    return tuple(out)
