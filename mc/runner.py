"""Runner: bin/check <ID> [--tier quick|thorough] [--replay FILE].

Parent mode spawns one child interpreter per hash seed (PYTHONHASHSEED must be
fixed before the interpreter starts), merges what the children explored,
matches violations against known_findings.jsonl, writes replay files and the
evidence file, and sets the exit status:
  0  property held on everything explored (KNOWN-FINDING lines allowed)
  1  VIOLATION property=<id> replay=<path>
  2  harness error (non-determinism, internal failure) - never a verdict
"""
import argparse
import hashlib
import importlib
import json
import os
import subprocess
import sys
import tempfile
import time
import traceback

_now = time.time     # bound before any virtual clock is installed
HERE = os.path.dirname(os.path.dirname(os.path.abspath(__file__)))
# scratch output location for mutant runs (never used by registered commands)
OUT = os.environ.get('VERIF_OUT_DIR') or HERE
LEVEL = 'model_checking'


class Ctx:
    def __init__(self, prop, tier, seed, hash_seed, budget_s):
        self.prop = prop
        self.tier = tier
        self.seed = seed
        self.hash_seed = hash_seed
        self.budget_s = budget_s
        self.workers = int(os.environ.get('VERIF_WORKERS', '0')) or min(
            16, os.cpu_count() or 1)
        self.quick = tier == 'quick'
        # position of this hash seed in the list of seeds of the run: checks
        # repeat only their hash-sensitive parts for index > 0
        self.hash_index = int(os.environ.get('VERIF_HASH_INDEX', '0') or 0)

    def log(self, msg):
        sys.stderr.write('[%s h=%s] %s\n' % (self.prop, self.hash_seed, msg))
        sys.stderr.flush()


def hash_seeds(tier, seed):
    h0 = (seed * 7919 + 17) % 4294967295
    if tier == 'quick':
        return [h0]
    return [h0, (h0 + 1000003) % 4294967295, (h0 + 2000029) % 4294967295]


def _module(prop):
    return importlib.import_module('mc.props.%s' % prop.lower())


def child_main(args):
    mod = _module(args.id)
    # record the import-time state of the package before anything runs
    # (mc/modstate.py): forked workers inherit the record
    from mc import modstate
    modstate.reset()
    hs = int(os.environ.get('PYTHONHASHSEED', '0'))
    ctx = Ctx(args.id, args.tier, args.seed, hs, args.budget)
    try:
        if args.replay:
            data = json.load(open(args.replay))
            out = mod.replay(ctx, data['replay'])
        else:
            out = mod.run(ctx)
        out['ok'] = True
    except Exception:  # pylint: disable=broad-except
        out = {'ok': False, 'error': traceback.format_exc()}
    with open(args.child, 'w') as f:
        json.dump(out, f, default=_jsonable)
    return 0


def _jsonable(o):
    try:
        import numpy as np
        if isinstance(o, np.generic):
            return o.item()
        if isinstance(o, np.ndarray):
            return o.tolist()
    except ImportError:
        pass
    if isinstance(o, (set, frozenset)):
        return sorted(o, key=repr)
    if isinstance(o, bytes):
        return o.decode('latin1')
    if isinstance(o, tuple):
        return list(o)
    return repr(o)


def load_findings():
    path = os.path.join(HERE, 'known_findings.txt')
    known = []
    if os.path.exists(path):
        for line in open(path):
            line = line.strip()
            if line.startswith('known:'):
                rec = json.loads(line[len('known:'):])
                rec['status'] = 'known'
                known.append(rec)
    return known


def match_known(known, prop, v):
    for k in known:
        if k.get('status') != 'known' or k.get('property') != prop:
            continue
        if k.get('clause') != v['clause']:
            continue
        sites = k.get('site')
        if isinstance(sites, str):
            sites = [sites]
        if v.get('site') in sites:
            return k
    return None


def run_child(prop, tier, seed, hs, budget, replay=None, index=0):
    fd, out = tempfile.mkstemp(prefix='verif-%s-' % prop, suffix='.json')
    os.close(fd)
    env = dict(os.environ)
    env['PYTHONHASHSEED'] = str(hs)
    env['VERIF_HASH_INDEX'] = str(index)
    cmd = [sys.executable, '-m', 'mc.runner', prop, '--tier', tier,
           '--seed', str(seed), '--budget', str(budget), '--child', out]
    if replay:
        cmd += ['--replay', replay]
    try:
        rc = subprocess.call(cmd, env=env, cwd=HERE)
        try:
            data = json.load(open(out))
        except ValueError:
            data = {'ok': False, 'error': 'child rc=%s wrote no result' % rc}
    finally:
        try:
            os.unlink(out)
        except OSError:
            pass
    return data


SUM_KEYS = ('states', 'transitions', 'traces_validated_against_impl',
            'evaluations', 'distinct_nontrivial', 'executions')


def merge(results):
    cov = {}
    viol = {}
    assumptions = []
    for r in results:
        c = r.get('coverage', {})
        for k, v in c.items():
            if k in SUM_KEYS and isinstance(v, int):
                cov[k] = cov.get(k, 0) + v
            elif k == 'exhaustive':
                cov[k] = cov.get(k, True) and bool(v)
            elif k == 'samples':
                cov.setdefault(k, [])
                if len(cov[k]) < 12:
                    cov[k].extend(v[:6])
            elif k == 'caps_hit':
                cov.setdefault(k, []).extend(v)
            elif k == 'nontrivial_counters' and isinstance(v, dict):
                d = cov.setdefault(k, {})
                for kk, vv in v.items():
                    d[kk] = d.get(kk, 0) + vv
            else:
                cov.setdefault(k, v)
        for v in r.get('violations', []):
            key = (v['clause'], v.get('site'))
            if key not in viol:
                viol[key] = dict(v)
            else:
                viol[key]['count'] = viol[key].get('count', 1) + v.get('count', 1)
        for a in r.get('assumptions', []):
            if a not in assumptions:
                assumptions.append(a)
    return cov, list(viol.values()), assumptions


def main():
    ap = argparse.ArgumentParser()
    ap.add_argument('id')
    ap.add_argument('--tier', default=os.environ.get('VERIF_TIER') or 'quick')
    ap.add_argument('--seed', type=int,
                    default=int(os.environ.get('VERIF_SEED', '0') or 0))
    ap.add_argument('--budget', type=float, default=0)
    ap.add_argument('--replay')
    ap.add_argument('--child')
    args = ap.parse_args()
    args.id = args.id.upper()
    if args.tier not in ('quick', 'thorough'):
        args.tier = 'quick'
    if args.child:
        return child_main(args)

    t0 = _now()
    prop = args.id
    known = load_findings()

    if args.replay:
        data = json.load(open(args.replay))
        r = run_child(prop, data.get('tier', 'quick'), args.seed,
                      data.get('hash_seed', 0), 0, replay=args.replay)
        if not r.get('ok'):
            sys.stderr.write(r.get('error', '') + '\n')
            return 2
        status = 0
        for v in r.get('violations', []):
            k = match_known(known, prop, v)
            if k:
                print('KNOWN-FINDING: property=%s %s' % (prop, k['what']))
            else:
                print('VIOLATION property=%s replay=%s clause=%s site=%s'
                      % (prop, args.replay, v['clause'], v.get('site')))
                status = 1
        if not r.get('violations'):
            print('replay: no violation reproduced')
        return status

    import glob
    for old in glob.glob(os.path.join(OUT, 'replays', '%s-*.json' % prop)):
        os.unlink(old)
    mod = _module(prop)
    seeds = hash_seeds(args.tier, args.seed)
    if getattr(mod, 'HASH_INSENSITIVE', False):
        seeds = seeds[:1]
    total_budget = args.budget or getattr(mod, 'BUDGET', {}).get(
        args.tier, 60 if args.tier == 'quick' else 600)
    results = []
    for index, hs in enumerate(seeds):
        r = run_child(prop, args.tier, args.seed, hs,
                      total_budget / len(seeds), index=index)
        if not r.get('ok'):
            sys.stderr.write('harness error in %s (hash seed %s):\n%s\n'
                             % (prop, hs, r.get('error')))
            return 2
        r['hash_seed'] = hs
        for v in r.get('violations', []):
            v['hash_seed'] = hs
        results.append(r)

    cov, violations, assumptions = merge(results)
    cov['hash_seeds'] = seeds
    os.makedirs(os.path.join(OUT, 'replays'), exist_ok=True)
    status = 0
    known_hit = {}
    unknown = 0
    for v in sorted(violations, key=lambda x: (x['clause'], str(x.get('site')))):
        k = match_known(known, prop, v)
        if k:
            known_hit.setdefault(k['what'], 0)
            known_hit[k['what']] += v.get('count', 1)
            continue
        unknown += 1
        payload = {
            'property': prop, 'tier': args.tier,
            'hash_seed': v.get('hash_seed', seeds[0]),
            'clause': v['clause'], 'site': v.get('site'),
            'detail': v.get('detail'), 'count': v.get('count', 1),
            'replay': v.get('replay'),
        }
        blob = json.dumps(payload, sort_keys=True, default=_jsonable)
        name = '%s-%s.json' % (prop, hashlib.sha1(blob.encode()).hexdigest()[:10])
        path = os.path.join(OUT, 'replays', name)
        with open(path, 'w') as f:
            f.write(json.dumps(payload, indent=1, default=_jsonable))
        print('VIOLATION property=%s replay=%s clause=%s site=%s count=%s'
              % (prop, path, v['clause'], v.get('site'), v.get('count', 1)))
        status = 1
    for what, n in sorted(known_hit.items()):
        print('KNOWN-FINDING: property=%s %s (matched %d times)' % (prop, what, n))
    cov['known_findings_matched'] = known_hit

    wall = _now() - t0
    for key in ('states', 'transitions'):
        cov.setdefault(key, 0)
    cov.setdefault('traces_validated_against_impl', cov.get('executions', 0))
    cov.setdefault('samples', [])
    evidence = {
        'property_id': prop, 'tier': args.tier, 'seed': args.seed,
        'level': LEVEL, 'coverage': cov, 'assumptions': assumptions,
        'wall_s': round(wall, 2), 'violations': unknown,
    }
    os.makedirs(os.path.join(OUT, 'evidence'), exist_ok=True)
    with open(os.path.join(OUT, 'evidence', '%s.json' % prop), 'w') as f:
        json.dump(evidence, f, indent=1, default=_jsonable, sort_keys=True)
        f.write('\n')
    summ = {k: cov.get(k) for k in ('states', 'transitions', 'evaluations',
                                    'distinct_nontrivial', 'exhaustive',
                                    'depth_completed')}
    print('%s %s: %s wall=%.1fs violations=%d known=%d'
          % (prop, args.tier, json.dumps(summ), wall, unknown, len(known_hit)))
    for c in cov.get('caps_hit', []):
        print('NOTE cap: %s' % c)
    return status


if __name__ == '__main__':
    sys.exit(main())
