"""C19 - fake admin store, independent oracle, menus and case runner.

The code under test is the real `treadmill.api.allocation`:
`API().reservation.create/update` (called through `__wrapped__`, the schema
decorator cannot run here) and below them `_check_capacity`, `_calc_free`,
`_calc_free_traits`, `_check_limit`.  Everything it reads comes from a fake
admin store installed as `allocation.context.GLOBAL.admin`:

* `partition().get([partition, cell])` -> record shaped like
  `admin._ldap.Partition.from_entry` (cpu/memory/disk/limits[], defaults) or
  `NoSuchObjectResult`;
* `cell_allocation().list({'cell':..,'partition':..})` filters on the stored
  attributes exactly as the LDAP and-query does; records are shaped like
  `CellAllocation.from_entry` (`_id` = '<tenant>/<alloc>/<cell>', `traits`
  always a list, `assignments`);  `get/create/update/delete` with
  NoSuchObject / AlreadyExists results.

The oracle never calls treadmill code: it parses cpu (`<n>%`, bare `<n>`) and
sizes itself, from the documented meaning of a size (docstring of
`utils.size_to_bytes`: an integer is a byte count, a suffix K/M/G/T/P/E/Z/Y
multiplies by a power of 1024, the same suffix followed by the optional `B`
modifier by a power of 1000 - `1K` = 1024, `1KB` = 1000; case and surrounding
blanks are irrelevant), and sums in percent / bytes exactly as the property
statement says.
"""
from mc import modstate  # noqa: E402
import copy
import itertools
import json
import os
import re
import traceback
import types

DEFAULT_PARTITION = '_default'
DIMS = ('cpu', 'memory', 'disk')
CELL = 'c1'
OTHER_CELL = 'c2'
PART = 'p1'
OTHER_PART = 'p2'


class HarnessError(Exception):
    pass


# ---------------------------------------------------------------------------
# fake admin store
# ---------------------------------------------------------------------------

class Store:
    def __init__(self, partitions=None, allocs=None):
        # (partition, cell) -> record ; (cell, 'tenant/alloc') -> attrs
        self.partitions = dict(partitions or {})
        self.allocs = dict(allocs or {})

    def clone(self):
        return Store(self.partitions,
                     {k: {a: (list(b) if isinstance(b, list) else b)
                          for a, b in v.items()}
                      for k, v in self.allocs.items()})

    def key(self):
        return tuple(sorted(
            (k, tuple(sorted((a, tuple(b) if isinstance(b, list) else b)
                             for a, b in v.items())))
            for k, v in self.allocs.items()))


_ALLOC_FIELDS = ('cpu', 'memory', 'disk', 'max_utilization', 'rank',
                 'rank_adjustment', 'traits', 'partition')


def _alloc_record(cell, alloc, attrs):
    """What CellAllocation.from_entry would hand out."""
    obj = {'cell': cell, 'traits': []}
    for f in _ALLOC_FIELDS:
        if f in attrs and attrs[f] is not None:
            obj[f] = copy.copy(attrs[f])
    obj['_id'] = '%s/%s' % (alloc, cell)
    obj['assignments'] = []
    obj.setdefault('cpu', '0%')
    obj.setdefault('memory', '0G')
    obj.setdefault('disk', '0G')
    obj.setdefault('partition', DEFAULT_PARTITION)
    return obj


class FakeCellAllocation:
    def __init__(self, fake):
        self._f = fake

    def list(self, attrs, **_kw):
        self._f.log.append(('list', dict(attrs)))
        out = []
        for (cell, alloc), rec in self._f.store.allocs.items():
            # LDAP and-filter on the *stored* attributes
            if attrs.get('cell') is not None and cell != attrs['cell']:
                continue
            if attrs.get('partition') is not None and \
                    rec.get('partition') != attrs['partition']:
                continue
            out.append(_alloc_record(cell, alloc, rec))
        return out

    def get(self, ident, dirty=False, **_kw):
        from treadmill.admin import exc as admin_exc
        cell, alloc = ident
        rec = self._f.store.allocs.get((cell, alloc))
        if rec is None:
            raise admin_exc.NoSuchObjectResult('no such object %r' % (ident,))
        return _alloc_record(cell, alloc, rec)

    def create(self, ident, attrs):
        from treadmill.admin import exc as admin_exc
        cell, alloc = ident
        if (cell, alloc) in self._f.store.allocs:
            raise admin_exc.AlreadyExistsResult('exists %r' % (ident,))
        self._f.store.allocs[(cell, alloc)] = {
            f: copy.copy(attrs[f]) for f in _ALLOC_FIELDS
            if f in attrs and attrs[f] is not None}
        self._f.log.append(('create', cell, alloc))

    def update(self, ident, attrs):
        from treadmill.admin import exc as admin_exc
        cell, alloc = ident
        rec = self._f.store.allocs.get((cell, alloc))
        if rec is None:
            raise admin_exc.NoSuchObjectResult('no such object %r' % (ident,))
        for f in _ALLOC_FIELDS:
            if f in attrs:
                if attrs[f] is None:
                    rec.pop(f, None)
                else:
                    rec[f] = copy.copy(attrs[f])
        self._f.log.append(('update', cell, alloc))

    def delete(self, ident):
        cell, alloc = ident
        self._f.store.allocs.pop((cell, alloc), None)


class FakePartition:
    def __init__(self, fake):
        self._f = fake

    def get(self, ident, dirty=False, **_kw):
        from treadmill.admin import exc as admin_exc
        partition, cell = ident
        rec = self._f.store.partitions.get((partition, cell))
        if rec is None:
            raise admin_exc.NoSuchObjectResult('no such object %r' % (ident,))
        obj = {'_id': partition, 'partition': partition, 'cell': cell,
               'systems': [],
               'cpu': rec.get('cpu', '0%'), 'memory': rec.get('memory', '0G'),
               'disk': rec.get('disk', '0G'),
               'limits': [dict(l) for l in rec.get('limits', [])]}
        return obj


class FakeAdmin:
    def __init__(self):
        self.store = Store()
        self.log = []

    def partition(self):
        return FakePartition(self)

    def cell_allocation(self):
        return FakeCellAllocation(self)

    def allocation(self):
        raise HarnessError('admin.allocation() is not part of C19')

    def tenant(self):
        raise HarnessError('admin.tenant() is not part of C19')


_ENV = {}


def env():
    """Import the real module once per process and plug the fake in."""
    if 'fake' not in _ENV:
        import logging
        import warnings
        warnings.simplefilter('ignore')
        logging.disable(logging.CRITICAL)
        from treadmill.api import allocation
        from treadmill import exc
        from treadmill import utils
        fake = FakeAdmin()
        allocation.context = types.SimpleNamespace(
            GLOBAL=types.SimpleNamespace(admin=fake))
        api = allocation.API()
        _ENV.update(
            mod=allocation, fake=fake, exc=exc, utils=utils,
            create=api.reservation.create.__wrapped__,
            update=api.reservation.update.__wrapped__,
        )
    return _ENV


# ---------------------------------------------------------------------------
# independent arithmetic
# ---------------------------------------------------------------------------

# exponent of the unit, from the documented suffix list K M G T P E Z Y
_EXPONENT = {u: i + 1 for i, u in enumerate('KMGTPEZY')}
_SIZE_RE = re.compile(r'^([0-9]+)([KMGTPEZY]?)(B?)$')
_CPU_RE = re.compile(r'^([0-9]+)(%?)$')


def pct(s):
    """cpu: `<n>%` or a bare `<n>` (utils.cpu_units: same number)."""
    m = _CPU_RE.match(str(s).strip())
    if not m:
        raise HarnessError('menu cpu not understood: %r' % (s,))
    return int(m.group(1))


def size_kind(s):
    """(kind, lower-case?, padded?) of a spelled size."""
    raw = str(s)
    m = _SIZE_RE.match(raw.strip().upper())
    if not m:
        raise HarnessError('menu size not understood: %r' % (s,))
    if not m.group(2):
        kind = 'plain-bytes'
    elif m.group(3):
        kind = 'decimal-suffix'
    else:
        kind = 'binary-suffix'
    return kind, raw != raw.upper(), raw != raw.strip()


def nbytes(s, reading=None):
    """Bytes meant by a spelled size, from the documented meaning.  `reading`
    (non-vacuity counters only) selects a deliberately WRONG reading:
    'all-binary' takes KB/MB/.. as powers of 1024, 'all-decimal' takes K/M/..
    as powers of 1000."""
    m = _SIZE_RE.match(str(s).strip().upper())
    if not m:
        raise HarnessError('menu size not understood: %r' % (s,))
    num, unit, mod = m.groups()
    if not unit:
        return int(num)             # '<n>' and '<n>B': bytes
    base = 1000 if mod else 1024
    if reading == 'all-binary':
        base = 1024
    elif reading == 'all-decimal':
        base = 1000
    return int(num) * base ** _EXPONENT[unit]


def vec(rec, reading=None):
    return (pct(rec['cpu']), nbytes(rec['memory'], reading),
            nbytes(rec['disk'], reading))


def spell(nb, style=0):
    """Render a byte count as a schema-valid request size `<n>[KMG]`, rounded
    DOWN to whole K (a bound that is not a multiple of 1K - decimal
    capacities - has its boundary between floor and floor + 1K).  style 0:
    largest unit that divides it, style 1: always K, style 2: lower-case
    largest unit."""
    assert nb >= 0, nb
    k = nb // 1024
    if style == 1:
        return '%dK' % k
    if k and k % (1024 * 1024) == 0:
        out = '%dG' % (k // (1024 * 1024))
    elif k and k % 1024 == 0:
        out = '%dM' % (k // 1024)
    else:
        out = '%dK' % k
    return out.lower() if style == 2 else out


def effective(store, verb, rid, rsrc):
    """The reservation that would exist if the request were accepted."""
    alloc, cell = rid.rsplit('/', 1)
    if verb == 'create':
        eff = dict(rsrc)
        eff.setdefault('partition', DEFAULT_PARTITION)
    else:
        stored = store.allocs[(cell, alloc)]
        eff = dict(stored)
        eff.setdefault('partition', DEFAULT_PARTITION)
        eff.update(rsrc)
    eff.setdefault('traits', [])
    return cell, alloc, eff


def expected(store, verb, rid, rsrc, reading=None):
    """(accept?, reason, shared) by the property statement.  `reading`: see
    nbytes() - only used to count the cases that tell readings apart."""
    cell, alloc, eff = effective(store, verb, rid, rsrc)
    partition = eff['partition']
    prec = store.partitions.get((partition, cell))
    if prec is None:
        cap = (0, 0, 0)
        limits = []
    else:
        cap = vec({'cpu': prec.get('cpu', '0%'),
                   'memory': prec.get('memory', '0G'),
                   'disk': prec.get('disk', '0G')}, reading)
        limits = prec.get('limits', [])
    others = [rec for (c, a), rec in store.allocs.items()
              if c == cell and rec.get('partition') == partition
              and not (c == cell and a == alloc)]
    req = vec(eff, reading)
    shared = False
    verdict = (True, None)
    for i, dim in enumerate(DIMS):
        tot = sum(vec(o, reading)[i] for o in others) + req[i]
        if tot > cap[i] and verdict[0]:
            verdict = (False, ('capacity', dim, tot, cap[i]))
    for lim in limits:
        if lim['trait'] not in eff['traits']:
            continue
        carrying = [o for o in others if lim['trait'] in o.get('traits', [])]
        if carrying:
            shared = True
        lv = vec(lim, reading)
        for i, dim in enumerate(DIMS):
            tot = sum(vec(o, reading)[i] for o in carrying) + req[i]
            if tot > lv[i] and verdict[0]:
                verdict = (False, ('trait', lim['trait'], dim, tot, lv[i]))
    return verdict[0], verdict[1], shared


def misread(store, verb, rid, rsrc):
    """Attribution only (never the verdict): which spellings among the values
    this decision rests on does the real `utils.size_to_bytes` /
    `utils.cpu_units` read differently from the documented meaning?  Returns
    sorted labels such as 'size_to_bytes:decimal-suffix'; the cause is
    narrowed to 'padded' / 'lower-case' when the same value without the
    blanks / in upper case is read correctly."""
    cell, _alloc, eff = effective(store, verb, rid, rsrc)
    partition = eff['partition']
    recs = [eff]
    prec = store.partitions.get((partition, cell))
    if prec is not None:
        recs.append(prec)
        recs.extend(prec.get('limits', []))
    recs.extend(rec for (c, _a), rec in store.allocs.items()
                if c == cell and rec.get('partition') == partition)
    utils = env()['utils']

    def reads(fn, val, want):
        try:
            return fn(val) == want
        except Exception:  # pylint: disable=broad-except
            return False

    out = set()
    for rec in recs:
        for dim in ('memory', 'disk'):
            val = rec.get(dim)
            if val is None:
                continue
            want = nbytes(val)
            if reads(utils.size_to_bytes, val, want):
                continue
            kind, lower, padded = size_kind(val)
            if padded and reads(utils.size_to_bytes, str(val).strip(), want):
                kind = 'padded'
            elif lower and reads(utils.size_to_bytes, str(val).upper(), want):
                kind = 'lower-case'
            out.add('size_to_bytes:' + kind)
        val = rec.get('cpu')
        if val is not None and not reads(utils.cpu_units, val, pct(val)):
            sval = str(val)
            if sval != sval.strip() and reads(utils.cpu_units, sval.strip(),
                                              pct(val)):
                kind = 'padded'
            else:
                kind = 'percent' if '%' in sval else 'bare-number'
            out.add('cpu_units:' + kind)
    return sorted(out)


def store_invariant(store):
    """Every (cell, partition) that has a record: stored sums within capacity
    and within every trait limit.  Returns list of (kind, detail)."""
    bad = []
    for (partition, cell), prec in store.partitions.items():
        recs = [rec for (c, _a), rec in store.allocs.items()
                if c == cell and rec.get('partition',
                                         DEFAULT_PARTITION) == partition]
        cap = vec(prec)
        for i, dim in enumerate(DIMS):
            tot = sum(vec(r)[i] for r in recs)
            if tot > cap[i]:
                bad.append(('capacity', {'partition': partition, 'dim': dim,
                                         'sum': tot, 'capacity': cap[i]}))
        for lim in prec.get('limits', []):
            carrying = [r for r in recs if lim['trait'] in r.get('traits', [])]
            lv = vec(lim)
            for i, dim in enumerate(DIMS):
                tot = sum(vec(r)[i] for r in carrying)
                if tot > lv[i]:
                    bad.append(('trait', {'partition': partition,
                                          'trait': lim['trait'], 'dim': dim,
                                          'sum': tot, 'limit': lv[i]}))
    return bad


# ---------------------------------------------------------------------------
# running one request against the real code
# ---------------------------------------------------------------------------

def impl_site(exc):
    site = None
    inner = None
    for fs in traceback.extract_tb(exc.__traceback__):
        fn = fs.filename.replace(os.sep, '/')
        if fn.endswith('treadmill/api/allocation.py'):
            site = 'allocation.py:%s' % fs.name
        if '/treadmill/' in fn:
            inner = '%s:%s' % (os.path.basename(fn), fs.name)
    site = site or inner
    if site is None:
        return None
    return '%s:%s' % (site, type(exc).__name__)


def call(store, verb, rid, rsrc):
    """Run the real create/update on `store` (mutated).  Returns
    ('accept'|'reject'|'error', info)."""
    e = env()
    e['fake'].store = store
    e['fake'].log = []
    fn = e['create'] if verb == 'create' else e['update']
    arg = copy.deepcopy(rsrc)
    try:
        fn(rid, arg)
    except e['exc'].InvalidInputError as err:
        return 'reject', {'message': str(err)[:200]}
    except HarnessError:
        raise
    except Exception as err:  # pylint: disable=broad-except
        site = impl_site(err)
        if site is None:
            raise
        return 'error', {'site': site, 'type': type(err).__name__,
                         'message': str(err)[:200]}
    return 'accept', {}


def form_of(verb, rsrc, wrong=()):
    omitted = [k for k in ('partition', 'traits') if k not in rsrc]
    return 'reservation.%s%s%s' % (
        verb, '(omitted:%s)' % '+'.join(omitted) if omitted else '',
        '[misread %s]' % '+'.join(wrong) if wrong else '')


def judge(store_before, store_after, verb, rid, rsrc, outcome, info,
          check_store=False):
    """Compare with the oracle.  Returns (violations, facts)."""
    ok, reason, shared = expected(store_before, verb, rid, rsrc)
    viol = []
    detail = {'verb': verb, 'id': rid, 'request': rsrc,
              'expected': 'accept' if ok else 'reject',
              'expected_reason': reason, 'observed': outcome,
              'observed_info': info}
    wrong = ()
    if outcome == 'error' or (outcome == 'accept') != ok:
        # a wrong decision: does it come from the unit conversion?  (site
        # qualifier only; the verdict above is the accept/reject decision)
        wrong = misread(store_before, verb, rid, rsrc)
        if wrong:
            detail['misread_by_utils'] = wrong
    if outcome == 'error':
        # site = innermost frame in api/allocation.py + exception type + a
        # minimal signature of the request kind (DESIGN 2.7)
        if wrong:
            sig = 'misread %s' % '+'.join(wrong)
        elif verb == 'update' and 'partition' not in rsrc:
            sig = 'update-omits-partition'
        elif shared:
            sig = 'shared-limited-trait'
        else:
            sig = 'no-shared-trait'
        viol.append({'clause': 'service-failure',
                     'site': '%s[%s]' % (info['site'], sig),
                     'detail': detail})
    elif outcome == 'accept' and not ok:
        clause = ('accepted-over-capacity' if reason[0] == 'capacity'
                  else 'accepted-over-trait-limit')
        viol.append({'clause': clause, 'site': form_of(verb, rsrc, wrong),
                     'detail': detail})
    elif outcome == 'reject' and ok:
        viol.append({'clause': 'rejected-although-fits',
                     'site': form_of(verb, rsrc, wrong), 'detail': detail})
    if outcome != 'accept' and store_after.key() != store_before.key():
        viol.append({'clause': 'refused-request-changed-store',
                     'site': form_of(verb, rsrc), 'detail': detail})
    if check_store and outcome == 'accept' and not viol \
            and not store_invariant(store_before):
        # safety net that does not depend on how the request was read: an
        # accepted call never takes the store, whose every record went
        # through the real API, from within capacity and limits to beyond
        for kind, d in store_invariant(store_after):
            viol.append({'clause': 'store-exceeds-%s' % (
                'capacity' if kind == 'capacity' else 'trait-limit'),
                'site': form_of(verb, rsrc),
                'detail': dict(detail, store=d)})
            break
    return viol, {'expect_accept': ok, 'shared': shared,
                  'reason': reason[0] if reason else None}


def build_store(partitions, existing):
    st = Store()
    for p in partitions:
        st.partitions[(p['partition'], p['cell'])] = {
            'cpu': p['cpu'], 'memory': p['memory'], 'disk': p['disk'],
            'limits': [dict(l) for l in p.get('limits', [])]}
    for e in existing:
        st.allocs[(e['cell'], e['alloc'])] = {
            'cpu': e['cpu'], 'memory': e['memory'], 'disk': e['disk'],
            'partition': e['partition'], 'traits': list(e['traits']),
            'rank': 100}
    return st


def run_single(payload):
    """payload: {'partitions': [...], 'existing': [...], 'verb','id','rsrc'}"""
    before = build_store(payload['partitions'], payload['existing'])
    after = before.clone()
    outcome, info = call(after, payload['verb'], payload['id'],
                         payload['rsrc'])
    return judge(before, after, payload['verb'], payload['id'],
                 payload['rsrc'], outcome, info)


def run_history(payload):
    """payload: {'partitions': [...], 'calls': [[verb, id, rsrc], ...]}.
    Violations of the *last* call are returned (earlier ones belong to the
    shorter history)."""
    st = build_store(payload['partitions'], [])
    viol, facts = [], {}
    for verb, rid, rsrc in payload['calls']:
        before = st.clone()
        outcome, info = call(st, verb, rid, rsrc)
        viol, facts = judge(before, st, verb, rid, rsrc, outcome, info,
                            check_store=True)
    return viol, facts


def run_payload(payload):
    modstate.reset()        # module-level memos do not leak between cases
    if payload['kind'] == 'single':
        return run_single(payload)
    return run_history(payload)


def shrink(v):
    """Greedy minimisation of a reported case: drop history calls / existing
    reservations while the same (clause, site) is still observed."""
    key = (v['clause'], v['site'])
    cur = copy.deepcopy(v['replay'])
    field = 'existing' if cur['kind'] == 'single' else 'calls'
    keep_last = cur['kind'] != 'single'
    changed = True
    while changed:
        changed = False
        n = len(cur[field]) - (1 if keep_last else 0)
        for i in range(n):
            cand = copy.deepcopy(cur)
            del cand[field][i]
            try:
                viol, _f = run_payload(cand)
            except KeyError:
                continue            # update of a reservation no longer there
            hit = [x for x in viol if (x['clause'], x['site']) == key]
            if hit:
                cur = cand
                v = dict(v, replay=cur, detail=hit[0]['detail'])
                changed = True
                break
    return v


def shortest_history(v, tier):
    """Look for the same (clause, site) among all histories of <= 2 calls
    (complete enumeration, single process) and prefer it."""
    if v['replay']['kind'] != 'history' or len(v['replay']['calls']) <= 1:
        return v
    key = (v['clause'], v['site'])
    creates, updates = history_calls(tier)
    partitions = history_partitions()
    for first in creates:
        st = build_store(partitions, [])
        before = st.clone()
        outcome, info = call(st, *first)
        viol, _f = judge(before, st, first[0], first[1], first[2], outcome,
                         info, check_store=True)
        for x in viol:
            if (x['clause'], x['site']) == key:
                return dict(v, detail=x['detail'], replay={
                    'kind': 'history', 'partitions': partitions,
                    'calls': [first]})
    if len(v['replay']['calls']) <= 2:
        return v
    for first in creates:
        st1 = build_store(partitions, [])
        call(st1, *first)
        for second in enabled_calls(st1, creates, updates):
            st2 = st1.clone()
            outcome, info = call(st2, *second)
            viol, _f = judge(st1, st2, second[0], second[1], second[2],
                             outcome, info, check_store=True)
            for x in viol:
                if (x['clause'], x['site']) == key:
                    return dict(v, detail=x['detail'], replay={
                        'kind': 'history', 'partitions': partitions,
                        'calls': [first, second]})
    return v


def confirm(v):
    """Re-run a reported case twice in fresh state; identical observations."""
    obs = []
    for _ in range(2):
        viol, _f = run_payload(v['replay'])
        obs.append(json.dumps(
            sorted((x['clause'], x['site'], json.dumps(x['detail'],
                                                       sort_keys=True,
                                                       default=repr))
                   for x in viol)))
    if obs[0] != obs[1]:
        raise HarnessError('non-deterministic replay: %r' % (v['replay'],))
    keys = {(x['clause'], x['site']) for x in run_payload(v['replay'])[0]}
    if (v['clause'], v['site']) not in keys:
        raise HarnessError('violation %s/%s not reproduced by %r (got %r)'
                           % (v['clause'], v['site'], v['replay'], keys))


# ---------------------------------------------------------------------------
# schema validation of the generated requests (they must lie inside the
# property's quantifier: what the REST layer would let through)
# ---------------------------------------------------------------------------

_VALID = {}


def schema_ok(rsrc):
    key = json.dumps(rsrc, sort_keys=True)
    if key in _VALID:
        return _VALID[key]
    if 'validator' not in _ENV:
        import jsonschema
        import treadmill
        d = os.path.join(os.path.dirname(treadmill.__file__), 'etc', 'schema')
        schema = {'allOf': [{'$ref': 'reservation.json#/resource'},
                            {'$ref': 'reservation.json#/verbs/create'}]}
        resolver = jsonschema.RefResolver('file://' + d + '/', schema)
        _ENV['validator'] = jsonschema.Draft4Validator(schema,
                                                       resolver=resolver)
    ok = not list(_ENV['validator'].iter_errors(rsrc))
    _VALID[key] = ok
    return ok


# ---------------------------------------------------------------------------
# menus, part A: one request against a pre-populated store
# ---------------------------------------------------------------------------

G = 1024 ** 3
M = 1024 ** 2
K = 1024


def partition_menu(tier):
    def p(name, cpu, mem, disk, limits):
        return (name, {'partition': PART, 'cell': CELL, 'cpu': cpu,
                       'memory': mem, 'disk': disk, 'limits': limits})
    # memory and disk differ everywhere so that a mixed-up dimension shows
    gpu = {'trait': 'gpu', 'cpu': '50%', 'memory': '2G', 'disk': '3072M'}
    ssd = {'trait': 'ssd', 'cpu': '30%', 'memory': '1G', 'disk': '5G'}
    menu = [
        ('absent', None),
        p('plain', '100%', '4G', '6G', []),
        p('gpu', '100%', '4G', '6G', [gpu]),
        p('gpu+ssd', '100%', '4096M', '6G', [gpu, ssd]),
        # capacity and limit written with decimal suffixes (powers of 1000):
        # every bound lies strictly between two whole K
        p('gpu-decimal', '100%', '4GB', '6000MB',
          [{'trait': 'gpu', 'cpu': '50%', 'memory': '2GB',
            'disk': '3000000KB'}]),
    ]
    if tier == 'thorough':
        menu += [
            p('gpu-wide', '100%', '4G', '6G',
              [{'trait': 'gpu', 'cpu': '150%', 'memory': '8G', 'disk': '9G'}]),
            p('gpu-zero', '100%', '4G', '6G',
              [{'trait': 'gpu', 'cpu': '0%', 'memory': '0G', 'disk': '0G'},
               ssd]),
        ]
    return menu


SIZE_A = ('10%', '1G', '512M')
SIZE_B = ('20%', '512M', '1024M')


def existing_menu(tier):
    """Entries an existing reservation is drawn from."""
    # ['x', 'gpu']: an unlimited trait listed BEFORE a limited one
    traits = [[], ['gpu'], ['ssd'], ['gpu', 'ssd'], ['x'], ['x', 'gpu']]
    if tier == 'thorough':
        traits += [['gpu', 'x'], ['x', 'ssd'], ['ssd', 'x', 'gpu']]
    menu = []
    for tr in traits:
        for size in (SIZE_A, SIZE_B):
            menu.append({'cell': CELL, 'partition': PART, 'traits': tr,
                         'cpu': size[0], 'memory': size[1], 'disk': size[2]})
    # a stored reservation written with decimal suffixes
    menu.append({'cell': CELL, 'partition': PART, 'traits': ['gpu'],
                 'cpu': '10%', 'memory': '1GB', 'disk': '500MB'})
    # must not count: same partition name in another cell, other partition
    menu.append({'cell': OTHER_CELL, 'partition': PART, 'traits': ['gpu'],
                 'cpu': '90%', 'memory': '3G', 'disk': '3G'})
    menu.append({'cell': CELL, 'partition': OTHER_PART, 'traits': ['gpu'],
                 'cpu': '90%', 'memory': '3G', 'disk': '3G'})
    return menu


def existing_sets(tier):
    menu = existing_menu(tier)
    maxn = 2 if tier == 'quick' else 3
    sets = []
    for n in range(0, maxn + 1):
        for combo in itertools.combinations_with_replacement(
                range(len(menu)), n):
            sets.append(combo)
    return menu, sets


def request_trait_menu(tier):
    menu = [[], ['gpu'], ['gpu', 'ssd'], ['x']]
    if tier == 'thorough':
        menu += [['ssd'], ['ssd', 'gpu'], ['x', 'gpu'], None]
    return menu


def _bounds(store, verb, rid, traits, partition):
    """Free room (percent, bytes, bytes) for a request with `traits`: overall
    and the binding bound over the limited traits carried.  Menu generation
    only - the verdict is computed by expected()."""
    probe = {'cpu': '0%', 'memory': '0K', 'disk': '0K',
             'partition': partition, 'traits': traits or []}
    cell, alloc, eff = effective(store, verb, rid, probe)
    prec = store.partitions.get((partition, cell))
    others = [rec for (c, a), rec in store.allocs.items()
              if c == cell and rec.get('partition') == partition
              and a != alloc]
    if prec is None:
        cap = (0, 0, 0)
        limits = []
    else:
        cap = vec(prec)
        limits = prec.get('limits', [])
    overall = [cap[i] - sum(vec(o)[i] for o in others) for i in range(3)]
    bound = list(overall)
    for lim in limits:
        if lim['trait'] in eff['traits']:
            lv = vec(lim)
            for i in range(3):
                fr = lv[i] - sum(vec(o)[i] for o in others
                                 if lim['trait'] in o.get('traits', []))
                bound[i] = min(bound[i], fr)
    return overall, bound


def _mk(v, style=0):
    v = [max(0, x) for x in v]
    return ('%d%%' % v[0], spell(v[1], style), spell(v[2], style))


def request_sizes(overall, bound):
    """Sizes around every boundary, simplest first, duplicates removed."""
    out = []
    seen = set()

    def add(tag, v, style=0):
        s = _mk(v, style)
        if s not in seen:
            seen.add(s)
            out.append((tag, s))

    add('small', (5, 256 * M, 256 * M))
    add('exact', bound)
    add('cpu+1', (bound[0] + 1, bound[1], bound[2]))
    add('mem+1K', (bound[0], bound[1] + K, bound[2]))
    add('disk+1K', (bound[0], bound[1], bound[2] + K))
    add('overall-exact', overall)
    add('all-1', (bound[0] - 1, bound[1] - K, bound[2] - K))
    add('exact-K', bound, 1)
    add('exact-lower', bound, 2)
    return out


def single_cases(tier, pname, prec, menu, combo):
    """All requests for one (partition record, existing set)."""
    existing = []
    for i, mi in enumerate(combo):
        e = dict(menu[mi])
        e['alloc'] = 't/e%d' % i
        existing.append(e)
    partitions = [prec] if prec else []
    return _requests(partitions, existing, request_trait_menu(tier), pname,
                     existing)


def _requests(partitions, existing, trait_menu, pname, update_targets):
    """create of a new id and update of every `update_targets` entry, every
    request-trait choice, sizes around every boundary."""
    store = build_store(partitions, existing)
    targets = [('create', 't/new/%s' % CELL)]
    for e in update_targets:
        if e['cell'] == CELL:
            targets.append(('update', '%s/%s' % (e['alloc'], CELL)))
        else:
            # same allocation name in another cell: a *different* id
            targets.append(('create', '%s/%s' % (e['alloc'], CELL)))
    for verb, rid in targets:
        for traits in trait_menu:
            overall, bound = _bounds(store, verb, rid, traits, PART)
            for tag, (cpu, mem, disk) in request_sizes(overall, bound):
                rsrc = {'cpu': cpu, 'memory': mem, 'disk': disk,
                        'partition': PART}
                if traits is not None:
                    rsrc['traits'] = list(traits)
                elif verb == 'update':
                    continue        # partial updates are exercised in part B
                yield {'kind': 'single', 'partitions': partitions,
                       'existing': existing, 'verb': verb, 'id': rid,
                       'rsrc': rsrc, 'tag': tag, 'partition_menu': pname}


# ---------------------------------------------------------------------------
# menus, part C: one configuration, its stored records (partition capacity,
# trait limit, two existing reservations) written in every spelling the unit
# conversion documents
# ---------------------------------------------------------------------------

_SUFFIX = ['', 'K', 'M', 'G', 'T', 'P', 'E', 'Z', 'Y']
BASE_STYLE = (3, '', False, False)          # '<n>G', what the tools write


def style_name(style):
    return render_size(1024 ** style[0], style)


def render_size(nb, style):
    """`nb` bytes written as a whole number of 1024**scale with the style's
    suffix.  With the 'B' modifier the SAME number then means powers of 1000
    (a slightly smaller quantity): the oracle reads what is written."""
    scale, mod, lower, pad = style
    q, r = divmod(nb, 1024 ** scale)
    if r:
        raise HarnessError('%d is not a whole number of %s' % (
            nb, _SUFFIX[scale]))
    suf = _SUFFIX[scale].lower() if lower else _SUFFIX[scale]
    text = '%d%s%s' % (q, suf, mod)
    return ' %s ' % text if pad else text


def render_cpu(percent, style):
    """cpu of a record: '<n>%'; the plain-bytes styles also write cpu as a
    bare number, the padded ones pad it."""
    text = '%d' % percent if style[0] == 0 else '%d%%' % percent
    return ' %s ' % text if style[3] else text


def spelling_styles(level, scales=(1, 2, 3, 4)):
    """(scale, modifier, lower-case, padded).  level 0: K M G T upper / lower
    case with and without the B modifier, plain bytes ('<n>', '<n>B',
    '<n>b'), padded G / GB.  level 1 adds mixed case ('Gb', 'gB') and more
    padded forms."""
    out = [BASE_STYLE]
    for scale in scales:
        out += [(scale, '', False, False), (scale, 'B', False, False),
                (scale, '', True, False), (scale, 'b', True, False)]
    out += [(0, '', False, False), (0, 'B', False, False),
            (0, 'b', True, False),
            (3, '', False, True), (3, 'B', False, True)]
    if level >= 1:
        for scale in scales:
            out += [(scale, 'b', False, False), (scale, 'B', True, False)]
        out += [(0, '', False, True), (2, 'b', True, True)]
    seen, uniq = set(), []
    for st in out:
        if st not in seen:
            seen.add(st)
            uniq.append(st)
    return uniq


def _deviating(styles, nrec, maxdev):
    """Every assignment of a style to each of `nrec` records in which at most
    `maxdev` records leave the base style; fewest deviations first."""
    others = [st for st in styles if st != BASE_STYLE]
    for ndev in range(0, maxdev + 1):
        for where in itertools.combinations(range(nrec), ndev):
            for pick in itertools.product(others, repeat=ndev):
                asg = [BASE_STYLE] * nrec
                for pos, st in zip(where, pick):
                    asg[pos] = st
                yield tuple(asg)


SPELLED_RECORDS = ('capacity', 'gpu-limit', 'reservation-e0(gpu)',
                   'reservation-e1')


# one style per kind of spelling, for the deeper (3 records off) sweep
KIND_STYLES = [BASE_STYLE, (1, '', False, False), (3, 'B', False, False),
               (4, 'B', False, False), (3, 'b', True, False),
               (0, '', False, False), (3, 'B', False, True)]


def spelling_plan(tier):
    """[(unit exponent, assignment)] - complete within the stated bounds:
    quick: unit T, level-0 styles, <= 2 of the 4 records off the base style;
    thorough: unit T, level-1 styles with <= 2 off, one style per kind
    (KIND_STYLES) with <= 3 off; unit E (2**60) with the suffixes T P E,
    <= 2 off."""
    plan, seen = [], set()

    def add(unit, gen):
        for asg in gen:
            if (unit, asg) not in seen:
                seen.add((unit, asg))
                plan.append((unit, asg))

    if tier == 'quick':
        add(4, _deviating(spelling_styles(0), 4, 2))
    else:
        add(4, _deviating(spelling_styles(1), 4, 2))
        add(4, _deviating(KIND_STYLES, 4, 3))
        add(6, _deviating(spelling_styles(0, scales=(4, 5, 6)), 4, 2))
    return plan


def spelled_config(unit, asg):
    """The part-C configuration with every quantity a whole number of
    1024**unit, each record written in its style."""
    u = 1024 ** unit
    cap, lim, e0, e1 = asg

    def rec(style, cpu, mem, disk):
        return {'cpu': render_cpu(cpu, style),
                'memory': render_size(mem * u, style),
                'disk': render_size(disk * u, style)}

    # memory and disk differ everywhere so that a mixed-up dimension shows
    partition = dict(rec(cap, 100, 8, 12), partition=PART, cell=CELL,
                     limits=[dict(rec(lim, 50, 4, 6), trait='gpu')])
    existing = [
        dict(rec(e0, 10, 2, 1), cell=CELL, partition=PART, traits=['gpu'],
             alloc='t/e0'),
        dict(rec(e1, 20, 1, 2), cell=CELL, partition=PART, traits=[],
             alloc='t/e1'),
    ]
    return [partition], existing


SPELLED_TRAITS = [[], ['gpu']]


def spelled_cases(unit, asg):
    """create of a new id / update of e0, with and without the limited trait,
    schema-valid sizes around every boundary."""
    partitions, existing = spelled_config(unit, asg)
    name = '/'.join(style_name(st).strip() or 'bytes' for st in asg)
    return _requests(partitions, existing, SPELLED_TRAITS, name,
                     existing[:1])


# ---------------------------------------------------------------------------
# menus, part B: histories of create/update calls from an empty store
# ---------------------------------------------------------------------------

def history_partitions():
    return [
        {'partition': PART, 'cell': CELL, 'cpu': '100%', 'memory': '4G',
         'disk': '8G',
         'limits': [{'trait': 'gpu', 'cpu': '50%', 'memory': '2G',
                     'disk': '4G'}]},
        {'partition': DEFAULT_PARTITION, 'cell': CELL, 'cpu': '50%',
         'memory': '2G', 'disk': '4G', 'limits': []},
    ]


def history_calls(tier):
    sizes = [('25%', '1G', '2048M'), ('50%', '2048M', '4G'),
             ('26%', '1G', '2G')]
    ids = ['t/a1', 't/a2']
    if tier == 'thorough':
        sizes += [('100%', '4G', '8G'), ('25%', '1025M', '2G')]
        ids += ['t/a3']
    creates, updates = [], []
    for alloc in ids:
        rid = '%s/%s' % (alloc, CELL)
        for size in sizes:
            base = {'cpu': size[0], 'memory': size[1], 'disk': size[2]}
            for part in (PART, None):
                for traits in ([], ['gpu'], None):
                    rsrc = dict(base)
                    if part is not None:
                        rsrc['partition'] = part
                    if traits is not None:
                        rsrc['traits'] = list(traits)
                    updates.append(['update', rid, rsrc])
                    creates.append(['create', rid, copy.deepcopy(rsrc)])
    return creates, updates


def enabled_calls(store, creates, updates):
    out = []
    for c in creates:
        alloc, cell = c[1].rsplit('/', 1)
        if (cell, alloc) not in store.allocs:
            out.append(c)
    for u in updates:
        alloc, cell = u[1].rsplit('/', 1)
        if (cell, alloc) in store.allocs:
            out.append(u)
    return out


# the real module is imported (and plugged) when this one is, so that the
# record of the package's import-time state (mc/modstate.py) is taken after
# whatever that import itself executes
env()
